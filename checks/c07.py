"""C07 - Zigzag persistence outputs the interval decomposition of the zigzag module.

spec -> code : MC_Zigzag.tla enumerates ALL zigzag sequences inside a bound (TLC BFS; the history is the state, so
               the state graph is the tree of sequences) and random deeper ones (TLC -simulate); every transition is
               replayed on Zigzag_persistence, Filtered_zigzag_persistence and Filtered_zigzag_persistence_with_storage
               for 8 column types x value schedules x key maps x ignoreCyclesAboveDim (harness/zz_harness.cpp).
code -> spec : oscillating random sequences recorded from the real classes, validated by Trace_Zigzag.tla.
The oracle is the right-filtration definition on explicit subspaces (specs/Zigzag.tla), itself backed by in-model
theorems (flag invariants, interval/Betti counts, insertion-only = Persistence.tla, mirror symmetry)."""
import glob
import json
import os
import re
import shutil
import time
from concurrent.futures import ThreadPoolExecutor

import vf

PROP = "C07"
JAVA = ("-Xss64m",)          # the mirror-symmetry invariant recurses over the whole history
TLC_PAR = 4                  # at most 4 TLC processes / compiles at a time (shared machine)

# part, cfg, simulate (behaviours), depth
PARTS = {
    "quick": [("bfs_triangle_7", "MC_Zigzag_tri7.cfg", None, None),
              ("bfs_tetra2skel_6", "MC_Zigzag_tet6.cfg", None, None),
              ("bfs_cells_5", "MC_Zigzag_cel5.cfg", None, None),
              ("sim_tetra_18", "MC_Zigzag_sim.cfg", 30, 19)],
    "thorough": [("bfs_triangle_9", "MC_Zigzag_tri9.cfg", None, None),
                 ("bfs_tetra2skel_8", "MC_Zigzag_tet8.cfg", None, None),
                 ("bfs_cells_6", "MC_Zigzag_cel6.cfg", None, None),
                 ("sim_tetra_18", "MC_Zigzag_sim.cfg", 300, 19)],
}
TRACES = {"quick": (4, 300), "thorough": (6, 300)}   # executions per column type, arrows per execution


def build():
    jobs = [dict(name="zz_harness_g%d" % g, src="zz_harness.cpp", defines=["VF_GROUP=%d" % g]) for g in range(4)]
    return vf.build_many(jobs, par=TLC_PAR)


def run_tlc(part, cfg, sim, depth):
    return vf.tlc("MC_Zigzag", cfg, workers=1, simulate=sim, depth=depth, timeout=1100, extra_java=JAVA,
                  tag="%s-%s-%d" % (PROP, part, os.getpid()))


# ----------------------------------------------------------------------------- known findings
INF = 1000000


def sequence_of(g, parent, dev):
    """the calls made up to and including the deviating one (acts of the model)"""
    path = [g.out[a][k][0] for a, k in g.path_to(parent, dev["u"])]
    if dev.get("phase") == "path":
        return path[:dev["step"] + 1]
    return path + [dev["act"]]


def m_storage_first_value_inf(dev):
    """C07-storage-first-value-inf: only the value diagram of the storage front end, only under the schedule that starts
    at +infinity, and only when the first value the object ever received was +infinity."""
    if not (dev.get("cfg", "").startswith("storage/") and "/dinf/" in dev.get("cfg", "")):
        return False
    if not dev.get("diffs") or not all(x["path"] == "obs.crash" or x["path"].startswith("obs.sd_dinf_") for x in dev["diffs"]):
        return False
    for a in dev.get("sequence", []):
        if a["op"] != "identity":
            return a["fv"]["dinf"] == INF
    return False


MATCHERS = {"C07-storage-first-value-inf": m_storage_first_value_inf}


def record_and_validate(ev, bins, executions, steps, work):
    shutil.rmtree(work, ignore_errors=True)
    os.makedirs(work, exist_ok=True)
    cmds = [[b, "record", work, str(vf.seed()), str(executions), str(steps)] for b in bins]
    vf.run_parallel(cmds, par=TLC_PAR, timeout=600, ok_codes=(0, 3))
    unknown = []
    for cf in sorted(glob.glob(os.path.join(work, "crash_*.ndjson"))):
        for rec in vf.read_ndjson(cf):
            unknown.append({"part": "traces", **rec})
    files = sorted(glob.glob(os.path.join(work, "zz_*.ndjson")))
    for f in files:   # a recorder that died (reported above as a crash) leaves a truncated last line: keep whole events
        lines = open(f).read().split("\n")
        good = []
        for x in lines:
            try:
                json.loads(x)
                good.append(x)
            except ValueError:
                break
        if len(good) != len([x for x in lines if x]):
            open(f, "w").write("".join(x + "\n" for x in good))
    files = [f for f in files if os.path.getsize(f) > 0]
    env = {"JAVA_TOOL_OPTIONS": "-Xss64m"}
    res = vf.validate_traces("Trace_Zigzag", "Trace_Zigzag.cfg", files, par=TLC_PAR, extra_env=env)
    nev, ops = 0, {}
    for r in res:
        nev += r["matched"]
        if not r["accepted"] and r.get("truncated"):
            unknown.append({"kind": "trace_truncated", "part": "traces", "file": r["file"], "events_before_the_cut": r["matched"]})
        elif not r["accepted"]:
            # a rejection is reported only if a second run rejects at the same line
            r2 = vf.validate_trace("Trace_Zigzag", "Trace_Zigzag.cfg", r["file"], tag="Trace_Zigzag-%d-again" % os.getpid(),
                                   extra_env=env)
            if r2["accepted"] or r2["matched"] != r["matched"]:
                raise vf.Infra("trace validation not reproducible on %s: %s then %s" % (r["file"], r, r2))
            lines = open(r["file"]).read().splitlines()
            bad = json.loads(lines[r["matched"]]) if r["matched"] < len(lines) else None
            unknown.append({"kind": "trace_rejected", "part": "traces", "file": r["file"], "line": r["matched"] + 1,
                            "event": bad, "prefix": [json.loads(x) for x in lines[max(0, r["matched"] - 400):r["matched"]]]})
    dims = {}
    for f in files:
        for line in open(f):
            e = json.loads(line)
            ops[e["op"]] = ops.get(e["op"], 0) + 1
            for c in e.get("closed", []):
                dims[c["dim"]] = dims.get(c["dim"], 0) + 1
    ev.cov["traces_validated_against_impl"] += len(files)
    ev.parts["traces"] = {"trace_files": len(files), "events_matched": nev, "events_by_op": ops,
                          "closed_intervals_by_dim": {str(k): v for k, v in sorted(dims.items())},
                          "spec": "Trace_Zigzag.tla", "executions_per_file": executions, "arrows_per_execution": steps}
    if files:
        first = open(files[0]).read().splitlines()
        if len(first) > 12:
            ev.sample({"trace_event": json.loads(first[12])}, 6)
    return unknown, nev


def main(tier):
    ev = vf.Evidence(PROP, tier)
    fnd = vf.Findings()
    t0 = time.time()
    bins = build()
    vf.log("[c07] build %.1fs" % (time.time() - t0))
    parts = PARTS[tier]
    with ThreadPoolExecutor(TLC_PAR) as ex:
        futs = [ex.submit(run_tlc, p, cfg, sim, depth) for p, cfg, sim, depth in parts]
        results = [f.result() for f in futs]
    vf.log("[c07] tlc models done at %.1fs" % (time.time() - t0))
    unknown = []
    total_beh = 0
    nontrivial = 0
    exhaustive = True
    for (part, cfg, sim, depth), r in zip(parts, results):
        if r.violation:
            # an in-model theorem failed: the oracle is inconsistent, not the library
            raise vf.Infra("in-model theorem violated in %s/%s:\n%s" % (part, cfg, r.violation[-3000:]))
        if sim:   # simulation mode prints its own statistics line
            m = re.search(r"The number of states generated: (\d+)", r.text)
            if m:
                r.generated = r.distinct = int(m.group(1))
        g = vf.StateGraph.from_tlc(r.outfile)
        # (simulation) keep only transitions whose target state was printed with its observations
        for u in range(len(g.out)):
            g.out[u] = [(a, v) for a, v in g.out[u] if g.obs[v] is not None]
        g.nedges = sum(len(o) for o in g.out)
        ev.add_tlc(part, r, {"graph_states": len(g.obs), "graph_edges": g.nedges, "transitions_by_action": vf.by_action(g), "cfg": cfg,
                             "mode": "simulate num=%d depth=%d" % (sim, depth) if sim else "bfs (complete)"})
        if sim:
            exhaustive = exhaustive and True   # the BFS parts are complete; the simulation part is sampling on top
        byop = {}
        for o in g.out:
            for a, _ in o:
                byop[a["op"]] = byop.get(a["op"], 0) + 1
        ev.parts[part]["edges_by_op"] = byop
        work = os.path.join(vf.BUILD, "work", "%s_%s_%d" % (PROP, part, os.getpid()))
        shutil.rmtree(work, ignore_errors=True)
        summ, devs, crashes, nb = vf.replay(g, bins, work, shards=2, timeout=1100)
        ev.parts[part]["replay"] = {"behaviours_in_cover": nb, "configs": len(summ),
                                    "behaviours": sum(s["behaviours"] for s in summ.values()),
                                    "steps": sum(s["steps"] for s in summ.values()),
                                    "skipped": sum(s["skipped"] for s in summ.values()),
                                    "deviations": sum(s["deviations"] for s in summ.values())}
        for c in crashes:
            unknown.append({"kind": "crash", "part": part, **c})
        parent, _ = g.bfs_tree()
        for d in devs:
            if d.get("u") is not None:
                d["sequence"] = sequence_of(g, parent, d)   # makes the replay file self-contained
            fid = fnd.match(PROP, d, MATCHERS)
            if fid is None:
                unknown.append({"part": part, **d})
            else:
                ev.parts[part].setdefault("known_findings", {})
                ev.parts[part]["known_findings"][fid] = ev.parts[part]["known_findings"].get(fid, 0) + 1
        total_beh += sum(s["behaviours"] for s in summ.values())
        # non-trivial = distinct sequences in which at least one interval was closed
        nontrivial += sum(1 for o in g.obs if o and o.get("diag_set"))
        # sample: the deepest state of the graph
        best = max((i for i in range(len(g.obs)) if g.obs[i]), key=lambda i: (g.obs[i]["arrow"], len(g.obs[i]["diag_set"])))
        parent, _ = g.bfs_tree()
        hist = [g.out[a][k][0] for a, k in g.path_to(parent, best)]
        ev.sample({"part": part, "sequence": [{k: v for k, v in a.items() if k in ("op", "dim", "bd", "k")} for a in hist],
                   "expected_closed": g.obs[best]["diag_set"], "expected_open": g.obs[best]["open_set"]}, 4)
        os.remove(r.outfile)
        shutil.rmtree(work, ignore_errors=True)
        vf.log("[c07] %s replayed at %.1fs" % (part, time.time() - t0))
    ex_n, steps = TRACES[tier]
    twork = os.path.join(vf.BUILD, "work", "%s_traces_%d" % (PROP, os.getpid()))
    try:
        rej, nev = record_and_validate(ev, bins, ex_n, steps, twork)
    except vf.Infra:
        if not unknown:
            raise
        rej, nev = [], 0     # deviations already found by the replay are reported, not hidden by the failure
    unknown += rej
    vf.log("[c07] traces validated at %.1fs" % (time.time() - t0))
    ev.cov["evaluations"] = total_beh + nev
    ev.cov["distinct_nontrivial"] = nontrivial
    ev.cov["exhaustive"] = exhaustive
    ev.cov["rule"] = ("every zigzag sequence of the bounded MC_Zigzag.tla models (TLC BFS, complete: all insert/remove/identity "
                      "sequences over the simplices of a triangle, of a tetrahedron's 2-skeleton and over general Z2 cell "
                      "complexes, up to the arrow bound) plus random deeper sequences (TLC simulation) replayed call by call on "
                      "Zigzag_persistence, Filtered_zigzag_persistence and ..._with_storage for 8 column types x value "
                      "schedules x key maps x ignoreCyclesAboveDim; per call the streamed intervals, the return value, the open "
                      "births and the translated diagrams are compared with the right-filtration definition; evaluations = "
                      "behaviours replayed (all configurations) + trace events validated; distinct_nontrivial = distinct "
                      "sequences with at least one closed interval")
    ev.assumptions = ["coefficients Z_2 (the only field the class supports)",
                      "bounds: " + ", ".join("%s=%s" % (p[0], p[1]) for p in parts),
                      "traces: <= 10 live cells per dimension, dimension <= 3, %d arrows per execution" % steps,
                      "sequences respect the documented preconditions (guards of ZigzagSpec.tla); filtration values are "
                      "integers, monotone along the sequence"]
    fnd.report(PROP)
    if unknown:
        ev.violations = len(unknown)
        p = vf.save_replay(PROP, "deviations", unknown[:50])
        ev.write()
        vf.violation(PROP, p)
        return 1
    shutil.rmtree(twork, ignore_errors=True)
    ev.write()
    return 0
