"""C09 - General-purpose ("basic") matrices behave as dense matrices over their field, whatever the column
representation, row access, containers, lazy swaps and column compression."""
import json
import os
import random
import re
import shutil
import time
import vf
from checks import dense_common as dc

PROP = "C09"
DUMP = [] if os.environ.get("C09_DUMP") else None   # debugging aid: every deviation matched to a known finding
ADD_OPS = dc.INDEX_OPS + dc.RANGE_OPS


# --------------------------------------------------------------------------- helpers on configurations / histories
def cfg_of(name):
    p = name.split("/")
    return {"ct": p[0], "z2": p[1] == "z2", "ra": p[2] != "ra0", "ras": p[2] == "raS", "rr": p[3] == "rr1",
            "map": p[4] == "map", "sw": p[5] == "sw1", "comp": p[6] == "comp", "ctor0": p[7] == "ctor0" if len(p) > 7 else True}


def steps_of(dev):
    """[(act, from_obs)] of the behaviour up to and including the deviating step"""
    return [(h["act"], h["from"]) for h in dev["hist"]] + [(dev["act"], dev["from"])]


def col(obs, c):
    for x in obs["cols_set"]:
        if x["c"] == c:
            return x
    return None


def is_zero(obs, c):
    x = col(obs, c)
    return x is not None and all(v == 0 for v in x["v"])


def ncols(obs, is_map):
    return len(obs["cols_set"]) if is_map else obs["next"]


def has_holes(obs):
    live = sorted(x["c"] for x in obs["cols_set"])
    return live != list(range(len(live)))


def diffs_under(dev, prefix):
    return all(d["path"].startswith(prefix) for d in dev["diffs"])


def target_emptied(a, o, P):
    """the addition `a` executed in state `o` writes into an empty column"""
    return a["op"] in ADD_OPS and (is_zero(o, a["t"]) or (a["op"] in ("mta", "mta_r") and a["c"] % P == 0))


def known_rows(steps, cf, upto):
    """rows the swap dictionaries of the matrix know before step `upto` (mirror of the harness bookkeeping)"""
    if not cf["ctor0"]:
        reg = set(range(8))
    else:
        reg = set()
    bound = 0 if cf["ctor0"] else 8
    for a, o in steps[:upto]:
        if a["op"] in ("insert", "insert_at"):
            for r, x in enumerate(a["v"]):
                if x:
                    reg.add(r)
                    bound = max(bound, r + 1)
        elif a["op"] == "erase_row":
            reg.discard(a["r"])
        elif a["op"] == "swap_rows" and cf["map"] and ((a["a"] in reg) != (a["b"] in reg)):
            if a["a"] in reg:
                reg.discard(a["a"]); reg.add(a["b"])
            else:
                reg.discard(a["b"]); reg.add(a["a"])
    return reg, bound


# --------------------------------------------------------------------------- matchers of the known findings
def m_heap_msa(dev):
    cf, P = cfg_of(dev["cfg"]), dev["P"]
    return cf["ct"] == "HEAP" and not cf["z2"] and diffs_under(dev, "obs.cols_set") and any(
        a["op"] in ("msa", "msa_r") and a["c"] % P > 1 and is_zero(o, a["t"]) for a, o in steps_of(dev))


def m_heap_range_empty(dev):
    cf, P = cfg_of(dev["cfg"]), dev["P"]
    # symptom: the content (a sum over all stored entries) is right, the emptiness test (pops the heap) is not
    # (or, with lazy swaps, an entry of a row that sums to zero survives and meets a row the dictionaries forgot)
    return cf["ct"] == "HEAP" and all(d["path"].startswith("obs.cols_set") and (d["path"].endswith(".zc") or d["path"].endswith(".exception"))
                                      for d in dev["diffs"]) \
        and any(a["op"] in dc.RANGE_OPS and target_emptied(a, o, P) for a, o in steps_of(dev))


def m_vector_absent(dev):
    cf = cfg_of(dev["cfg"])
    return cf["ct"] == "VECTOR" and any(d["path"].startswith("obs.cols_set") for d in dev["diffs"]) and any(
        a["op"] == "zero_entry" and col(o, a["c"])["v"][a["r"]] == 0 for a, o in steps_of(dev))


def m_vector_row(dev):
    cf = cfg_of(dev["cfg"])
    return cf["ct"] == "VECTOR" and cf["ra"] and diffs_under(dev, "obs.rows") and any(
        a["op"] == "zero_entry" and col(o, a["c"])["v"][a["r"]] != 0 for a, o in steps_of(dev))


def m_vector_lazy_source(dev):
    cf, P = cfg_of(dev["cfg"]), dev["P"]
    st = steps_of(dev)
    for i, (a, o) in enumerate(st):
        if a["op"] == "zero_entry" and col(o, a["c"])["v"][a["r"]] != 0:
            if any(b["op"] in ("add", "mta") and target_emptied(b, q, P) for b, q in st[i + 1:]):
                return cf["ct"] == "VECTOR"
    return False


def m_comp_zero(dev):
    cf = cfg_of(dev["cfg"])
    a = dev["act"]
    return cf["comp"] and a["op"] in ADD_OPS and is_zero(dev["from"], a["t"])


def m_comp_same_class(dev):
    cf = cfg_of(dev["cfg"])
    a = dev["act"]
    return cf["comp"] and a["op"] in dc.INDEX_OPS and col(dev["from"], a["s"])["k"] == col(dev["from"], a["t"])["k"]


def m_swap_unknown_row(dev):
    cf = cfg_of(dev["cfg"])
    st = steps_of(dev)
    a = dev["act"]
    if not (cf["sw"] and not cf["map"] and a["op"] == "swap_rows"):
        return False
    reg, bound = known_rows(st, cf, len(st) - 1)
    return max(a["a"], a["b"]) >= bound


def m_swap_partial_reset(dev):
    cf = cfg_of(dev["cfg"])
    if not cf["sw"]:
        return False
    st = steps_of(dev)
    for i, (a, o) in enumerate(st):
        if a["op"] == "swap_rows" and a["a"] != a["b"]:
            later = [q for b, q in st[i:]] + [dev["to"]]
            if min(ncols(q, cf["map"]) for q in later) <= max(a["a"], a["b"]):
                return True
    return False


def m_swap_holes(dev):
    """_orderRows visits the column indices 0 .. get_number_of_columns()-1: unused indices of a map container, or the
    not yet existing columns below the index given to insert_column(col, index) with a vector container"""
    cf = cfg_of(dev["cfg"])
    if not cf["sw"]:
        return False
    st = steps_of(dev)
    for i, (a, o) in enumerate(st):
        if a["op"] == "swap_rows" or (a["op"] == "swap_cols" and cf["ra"]):
            if cf["map"]:
                if any(has_holes(q) for b, q in st[i:] + [(None, dev["to"])]):
                    return True
            elif any(b["op"] == "insert_at" and b["i"] >= q["next"] for b, q in st[i + 1:]):
                return True
    return False


def m_swap_map_erase(dev):
    cf = cfg_of(dev["cfg"])
    if not (cf["sw"] and cf["map"]):
        return False
    st = steps_of(dev)
    for i, (a, o) in enumerate(st):
        if a["op"] == "swap_rows" and a["a"] != a["b"]:
            reg, bound = known_rows(st, cf, i)
            if (a["a"] in reg) != (a["b"] in reg):
                return True
    return False


def m_range_pending(dev):
    cf = cfg_of(dev["cfg"])
    return cf["sw"] and any(a["op"] in dc.RANGE_OPS and o.get("pend") for a, o in steps_of(dev))


def m_swap_cols_set_rows(dev):
    cf = cfg_of(dev["cfg"])
    return cf["sw"] and cf["ras"] and diffs_under(dev, "obs.rows") and any(
        a["op"] == "swap_cols" and a["a"] != a["b"] for a, o in steps_of(dev))


def m_swap_cols_index(dev):
    cf = cfg_of(dev["cfg"])
    return cf["sw"] and cf["ra"] and diffs_under(dev, "obs.rows") and any(
        a["op"] == "swap_cols" and a["a"] != a["b"] for a, o in steps_of(dev))


MATCHERS = {
    "C09-compression-add-onto-zero-column": m_comp_zero,
    "C09-compression-add-same-class": m_comp_same_class,
    "C09-heap-msa-coefficient": m_heap_msa,
    "C09-heap-range-into-empty": m_heap_range_empty,
    "C09-vector-zero-entry-absent": m_vector_absent,
    "C09-vector-zero-entry-row": m_vector_row,
    "C09-vector-add-from-lazy-source": m_vector_lazy_source,
    "C09-swap-rows-unknown-row": m_swap_unknown_row,
    "C09-swap-order-rows-holes": m_swap_holes,
    "C09-swap-rows-map-erase": m_swap_map_erase,
    "C09-range-add-pending-swaps": m_range_pending,
    "C09-swap-order-rows-partial-reset": m_swap_partial_reset,
    "C09-swap-columns-set-rows": m_swap_cols_set_rows,
    "C09-swap-columns-row-access-index": m_swap_cols_index,
}


# --------------------------------------------------------------------------- edges to route around once a finding was seen
def ban_predicate(graph, seen, cls_name, ctor, P):
    """edges that trigger one of the findings `seen` in this configuration class"""
    is_map = cls_name.startswith("map")

    def banned(u, k, a):
        o = graph.obs[u]
        op = a["op"]
        if "C09-heap-msa-coefficient" in seen and op in ("msa", "msa_r") and a["c"] % P > 1 and is_zero(o, a["t"]):
            return True
        if seen & {"C09-vector-zero-entry-absent", "C09-vector-zero-entry-row", "C09-vector-add-from-lazy-source"} and op == "zero_entry":
            return True
        if "C09-swap-order-rows-partial-reset" in seen:
            if op == "swap_rows" and a["a"] != a["b"] and max(a["a"], a["b"]) >= ncols(o, is_map):
                return True
            if op in ("remove_col", "remove_last") and o.get("pend"):
                return True
        if "C09-swap-order-rows-holes" in seen:
            if op in ("swap_rows", "swap_cols") and is_map and has_holes(o):
                return True
            if op in ("remove_col", "insert_at", "remove_last") and o.get("pend"):
                return True
        if "C09-swap-rows-map-erase" in seen and ((op == "swap_rows" and a["a"] != a["b"] and ctor == 0) or op == "erase_row"):
            return True
        if "C09-range-add-pending-swaps" in seen and op in dc.RANGE_OPS and o.get("pend"):
            return True
        if seen & {"C09-swap-columns-set-rows", "C09-swap-columns-row-access-index"} and op == "swap_cols" and a["a"] != a["b"]:
            return True
        return False
    return banned


def comp_tree_banned(graph):
    """compressed model: steps the harness executes in a child process must not be on a BFS tree path"""
    def tb(u, k, a):
        if a["op"] not in ADD_OPS:
            return False
        o = graph.obs[u]
        if is_zero(o, a["t"]):
            return True
        return a["op"] in dc.INDEX_OPS and col(o, a["s"])["k"] == col(o, a["t"])["k"]
    return tb


# --------------------------------------------------------------------------- the check
def models(tier):
    # (part name, module, cfg, P, NR, compressed)
    if tier == "quick":
        return [("z2_3x2", "MC_DenseMatrix", "MC_DenseMatrix_z2q.cfg", 2, 3, False),
                ("z3_2x2", "MC_DenseMatrix", "MC_DenseMatrix_z3q.cfg", 3, 2, False),
                ("comp_z2_2x3", "MC_DenseMatrixC", "MC_DenseMatrixC_z2q.cfg", 2, 2, True),
                ("comp_z3_2x2", "MC_DenseMatrixC", "MC_DenseMatrixC_z3q.cfg", 3, 2, True)]
    return [("z2_3x3", "MC_DenseMatrix", "MC_DenseMatrix_z2t.cfg", 2, 3, False),
            ("z3_3x2", "MC_DenseMatrix", "MC_DenseMatrix_z3t.cfg", 3, 3, False),
            ("comp_z2_3x3", "MC_DenseMatrixC", "MC_DenseMatrixC_z2t.cfg", 2, 3, True),
            ("comp_z3_2x3", "MC_DenseMatrixC", "MC_DenseMatrixC_z3t.cfg", 3, 2, True)]


def main(tier):
    ev = vf.Evidence(PROP, tier)
    fnd = vf.Findings()
    rnd = random.Random(vf.seed())
    t0 = time.time()
    bins, rec_bins = dc.build_all(tier)
    vf.log("[c09] build %.1fs" % (time.time() - t0))
    unknown = []
    total_beh = 0
    cfg_names = set()
    quick = tier == "quick"
    from concurrent.futures import ThreadPoolExecutor
    with ThreadPoolExecutor(4) as ex:   # the bounded models are independent: at most 4 TLC processes at a time
        tlc_runs = {part: ex.submit(vf.tlc, module, cfg, 1, None, None, None, 1100, False, "%s-%d" % (part, os.getpid()))
                    for part, module, cfg, P, NR, comp in models(tier)}
    for part, module, cfg, P, NR, comp in models(tier):
        r = tlc_runs[part].result()
        if r.violation:
            p = vf.save_replay(PROP, part + "_model", {"tlc": r.violation})
            vf.violation(PROP, p)
            ev.violations += 1
            ev.write()
            return 1
        g = dc.Graph.from_tlc(r.outfile)
        ev.add_tlc(part, r, {"graph_states": len(g.obs), "graph_edges": g.nedges, "transitions_by_action": vf.by_action(g), "cfg": cfg})
        os.remove(r.outfile)
        classes = [dc.COMP_CLASS] if comp else dc.PLAIN_CLASSES
        rep = {}
        for cname, filt, ban in classes:
            needs_rows = ("sw1" in cname) or cname.endswith("_ra")
            # constructors: Matrix() for every class; Matrix(n, p) in addition where row dictionaries are vectors
            # (compression: the default constructor in the quick tier, the reserving one in the thorough tier)
            for ctor in ((0, 1) if needs_rows else ((0,) if (quick or not comp) else (1,))):
                parts = [2] if comp else ([0, 1] if P == 2 else [1])
                bl = [b for (ct, p_), b in sorted(bins.items()) if p_ in parts]
                env = {"VF_P": str(P), "VF_NR": str(NR), "VF_CTOR": str(ctor), "VF_RESERVE": "4", "VF_FILTER": filt}
                work = os.path.join(vf.BUILD, "work", "%s_%s_%s_%d_%d" % (PROP, part, cname, ctor, os.getpid()))
                big = g.nedges > (40000 if comp else 120000)
                kw = dict(shards=1, rnd=rnd, walks=(150 if quick else 300), walk_len=8, walk_edges=10,
                          max_edges_per_state=(12 if big else None))
                tb = comp_tree_banned(g) if comp else None
                if comp:
                    kw["tree_banned_keep"] = 3 if quick else 2
                summ, devs, crashes, nb, nreach = dc.run_replay(g, bl, work, env, ban, tree_banned=tb, **kw)
                seen = set()
                known_cfgs = set()
                for d in devs:
                    d["P"] = P
                    dc.enrich(g, d)
                    fid = fnd.match(PROP, d, MATCHERS)
                    if fid is None:
                        unknown.append(slim(d, part, cname))
                    else:
                        seen.add(fid)
                        known_cfgs.add(d["cfg"])
                        if DUMP is not None:
                            DUMP.append(dict(slim(d, part, cname), finding=fid))
                for c in crashes:
                    unknown.append({"kind": "crash", "part": part, "class": cname, **c})
                rounds = 1
                summ2 = {}
                if seen and not unknown:
                    # route around the triggers of the findings seen and replay again the configurations concerned,
                    # so that the rest of their behaviours is checked
                    env2 = dict(env)
                    env2["VF_ONLY"] = "|".join(sorted(known_cfgs))
                    banned = ban_predicate(g, seen, cname, ctor, P)
                    summ2, devs2, crashes2, nb2, nreach2 = dc.run_replay(g, bl, work + "_r2", env2, ban, banned=banned,
                                                                         tree_banned=tb, **kw)
                    rounds = 2
                    for d in devs2:
                        d["P"] = P
                        dc.enrich(g, d)
                        if fnd.match(PROP, d, MATCHERS) is None:
                            unknown.append(slim(d, part, cname + "/round2"))
                    for c in crashes2:
                        unknown.append({"kind": "crash", "part": part, "class": cname + "/round2", **c})
                if not unknown:
                    shutil.rmtree(work, ignore_errors=True)
                    shutil.rmtree(work + "_r2", ignore_errors=True)
                beh = sum(s["behaviours"] for s in summ.values()) + sum(s["behaviours"] for s in summ2.values())
                total_beh += beh
                cfg_names |= set(summ)
                rep["%s/ctor%d" % (cname, ctor)] = {
                    "configurations": len(summ), "behaviours": beh, "cover": nb, "states_reached": nreach, "rounds": rounds,
                    "skipped": sum(s["skipped"] for s in summ.values()),
                    "deviations_known": sum(s["deviations"] for s in summ.values()) if seen else 0,
                    "findings_seen": sorted(seen),
                    "behaviours_after_rerouting": sum(s["behaviours"] for s in summ2.values()),
                    "skipped_after_rerouting": sum(s["skipped"] for s in summ2.values())}
                if len(unknown) > 200:
                    break
            if len(unknown) > 200:
                break
        ev.parts[part]["replay"] = rep
        vf.log("[c09] %s done at %.1fs" % (part, time.time() - t0))
        if g.out[g.init]:
            ev.sample({"part": part, "example_edge": {"act": g.out[g.init][0][0], "to_state_obs": g.obs[g.out[g.init][0][1]]}}, 3)
        if len(unknown) > 200:
            break
    if not unknown:
        rejected = dc.record_and_validate(ev, fnd, tier, MATCHERS_TRACE, bins=rec_bins)
        unknown += rejected
        vf.log("[c09] traces done at %.1fs" % (time.time() - t0))
    ev.cov["evaluations"] = total_beh
    ev.cov["distinct_nontrivial"] = ev.cov["states"]
    ev.cov["exhaustive"] = quick   # thorough tier: TLC enumerates the bounded models completely, the replay samples edges
    ev.cov["configurations"] = len(cfg_names)
    ev.cov["rule"] = ("every transition of the bounded DenseMatrix.tla / CompressedMatrix.tla state graphs (TLC BFS, complete) "
                      "replayed as a behaviour init ~> u -> v (BFS tree path, plus random non-shortest walks) on a fresh "
                      "Matrix of every instantiation; contents, iteration, is_zero_entry, is_zero_column, rows and column "
                      "count compared after every step; distinct = distinct abstract states")
    ev.assumptions = ["bounded models: see parts; Z_2 and Z_3, <= 3 rows, <= 3 columns",
                      "histories respect the documented preconditions (guards of DenseMatrix.tla); row indices given to a "
                      "matrix with lazy swaps are rows the matrix knows (reserving constructor or an inserted column), except "
                      "for swap_rows; source and target of an addition differ"]
    fnd.report(PROP)
    if DUMP is not None:
        json.dump(DUMP, open(os.environ["C09_DUMP"], "w"))
    if unknown:
        ev.violations = len(unknown)
        p = vf.save_replay(PROP, "deviations", unknown[:60])
        ev.write()
        vf.violation(PROP, p)
        return 1
    ev.write()
    return 0


def slim(d, part, cname):
    return {"part": part, "class": cname, "cfg": d["cfg"], "phase": d["phase"], "history": [h["act"] for h in d["hist"]],
            "act": d["act"], "diffs": d["diffs"]}


# trace rejections: the event that was rejected plus the events of its execution so far
def t_heap_range_empty(rj):
    # the rejected event is inconsistent in itself: a column whose entries all read zero is not reported empty
    e = rj["event"]
    if not (rj["cfg"].startswith("HEAP") and "zc" in e and "ze" in e):
        return False
    ze = {c: z for c, z in e["ze"]}
    odd = [c for c, z in e["zc"] if (not z) and all(ze.get(c, [False]))]
    return bool(odd) and any(x["op"] in dc.RANGE_OPS for x in rj["execution"])


MATCHERS_TRACE = {
    "C09-heap-range-into-empty": t_heap_range_empty,
}
