"""C08 - representative cycles really represent their bars."""
import json
import os
import vf
from checks import pm_common

PROP = "C08"
KNOWN_MSG = "RU representative cycle over Z2 is the column of U instead of the column of its inverse"


def _m_col_of_u(dev):
    ds = dev.get("diffs", [])
    if not dev.get("cfg", "").startswith("RU/") or "/z2/" not in dev.get("cfg", ""):
        return False
    for d in ds:
        if d["path"] == "obs.checks_failed":
            if d["got"] != [KNOWN_MSG]:
                return False
        elif d["path"] != "obs.bad_cycle":
            return False
    return bool(ds)


def _m_heap(dev):
    if "/HEAP/" not in dev.get("cfg", ""):
        return False
    if dev.get("crash") and "remove_last" in (dev.get("hist", []) + [dev.get("act", {}).get("op")]):
        return True   # raw heap entry of a removed row indexes birthToCycle_ out of bounds
    for d in dev.get("diffs", []):
        if d["path"] == "obs.bad_cycle":
            cyc = d["got"].get("cycle", [])
            return len(cyc) != len(set(cyc))   # the raw heap lists a cell several times
    return False


MATCHERS = {"C08-ru-z2-column-of-u": _m_col_of_u, "C08-heap-cycles-raw-entries": _m_heap}


def witness_ids(fnd, bins):
    """Known finding C08-ids-not-positions: representative cycles assume identifiers == positions."""
    work = os.path.join(vf.BUILD, "work", "%s_witness_%d" % (PROP, os.getpid()))
    os.makedirs(work, exist_ok=True)
    obs1 = {"n": 1, "dims": [0], "bars_set": [{"dim": 0, "birth": 0, "death": -1}], "checks_failed": [],
            "reps_set": [{"dim": 0, "birth": 0, "death": -1, "ru_set": [[{"x": 0, "c": 1}]], "ch_set": [[{"x": 0, "c": 1}]]}]}
    with open(os.path.join(work, "states.ndjson"), "w") as f:
        f.write(json.dumps({"i": 0, "obs": {"n": 0, "dims": [], "bars_set": [], "checks_failed": [], "reps_set": []}}) + "\n")
        f.write(json.dumps({"i": 1, "obs": obs1}) + "\n")
    with open(os.path.join(work, "groups.ndjson"), "w") as f:
        f.write(json.dumps({"u": 0, "path": [], "edges": [{"k": 0, "act": {"op": "insert", "d": 0, "bd_set": []}, "to": 1}]}) + "\n")
    out = os.path.join(work, "out.ndjson")
    vf.run([bins[0], os.path.join(work, "states.ndjson"), os.path.join(work, "groups.ndjson"), out],
           env={"VF_IDS": "gap", "VF_P": "2"}, ok_codes=(0, 3), timeout=120)
    bad = [r for r in vf.read_ndjson(out) if r.get("kind") in ("crash", "deviation")]
    if bad:
        fnd.seen["C08-ids-not-positions"] = len(bad)


def main(tier):
    ev = vf.Evidence(PROP, tier)
    fnd = vf.Findings()
    cols = pm_common.pick_cols(tier)
    bins, jobs = pm_common.build(2, cols)
    z2bins = [b for b, j in zip(bins, jobs) if "VF_Z2=1" in j["defines"]]
    zpbins = [b for b, j in zip(bins, jobs) if "VF_Z2=0" in j["defines"]]
    unknown = []
    total = 0
    plan = [("reps_z2", "MC_Reps_z2.cfg" if tier == "quick" else "MC_Reps_z2_t.cfg", z2bins, 2),
            ("reps_z3", "MC_Reps_z3.cfg", zpbins, 3)]
    for part, cfg, bs, p in plan:
        r, g, summ, devs, crashes = pm_common.run_model(ev, part, cfg, bs, p, walks=200 if tier == "quick" else 2000,
                                                        walk_len=12, extra_env={"VF_IDS": "seq", "VF_MID_UPDATE": "1"})
        if r.violation:
            pth = vf.save_replay(PROP, part + "_model", {"tlc": r.violation})
            vf.violation(PROP, pth)
            ev.violations += 1
            ev.write()
            return 1
        for c in crashes:
            cd = pm_common.crash_as_dev(PROP, c, part)
            cd["crash"] = True
            if fnd.match(PROP, cd, MATCHERS) is None:
                unknown.append({"part": part, **c})
        for d in devs:
            if fnd.match(PROP, d, MATCHERS) is None:
                unknown.append({"part": part, **d})
        total += ev.parts[part]["replay"]["behaviours"]
        st = next(o for o in g.obs if o and o["n"] >= 3)
        ev.sample({"part": part, "state_obs": st}, 2)
    # code -> spec beyond the bounded model: free-running insert / remove_last histories on complexes with up to 12 cells
    # over Z3 (and Z2), the returned supports logged and judged by Trace_PersistenceMatrix.tla (RepsOK: no repetition,
    # dimension, youngest cell = birth, a cycle with non-zero coefficients on exactly the support) together with the
    # matrix identities; configurations covered by a listed finding do not log their cycles (harness/pm_model.hpp)
    nw = 12 if tier == "quick" else 120
    unknown += pm_common.trace_part(ev, PROP, "traces_reps_z3", 2, zpbins, 3, False, nw, 30, 12, MATCHERS, fnd,
                                    extra_env={"VF_LOGREPS": "1"})
    unknown += pm_common.trace_part(ev, PROP, "traces_reps_z2", 5, z2bins, 2, False, nw, 30, 12, MATCHERS, fnd,
                                    extra_env={"VF_LOGREPS": "1"})
    witness_ids(fnd, z2bins)
    ev.cov["evaluations"] = total
    ev.cov["distinct_nontrivial"] = ev.cov["states"]
    ev.cov["exhaustive"] = True
    ev.cov["rule"] = ("for every filtered complex of the bounded model TLC computes, definitionally (explicit sets of cycles and "
                      "boundaries), the set of all valid representatives of every bar; after every insert/remove_last step the real "
                      "matrices (RU and chain with representative cycles, column types %s) must return, for every bar, a cycle in "
                      "that set; get_representative_cycles must list exactly those cycles" % [pm_common.COLS[c] for c in cols])
    ev.assumptions = ["bounded: <= 5 cells over Z2 (6 thorough), <= 4 over Z3; cycles over Zp are compared by support (the API "
                      "returns no coefficients)", "identifiers equal positions (known finding C08-ids-not-positions otherwise)"]
    fnd.report(PROP)
    if unknown:
        ev.violations = len(unknown)
        pth = vf.save_replay(PROP, "deviations", unknown[:60])
        ev.write()
        vf.violation(PROP, pth)
        return 1
    ev.write()
    return 0
