"""C14 - the specialised 1D / 2D persistence routines (Persistence_on_a_line.h, Persistence_on_rectangle.h) output the
diagram of the lower-star cubical filtration of their input.

"cases" style.  spec -> code: MC_LowerStar (TLC) enumerates every sequence of length <= 7 over 4 values, every weak
order of the squares of 2x2, 2x3, 3x2 rectangles and every 3x3 array over 3 values, 3x4 / 4x3 over 2 values (thorough:
longer sequences, 3x3 over 4 values, 4x4, 3x5, 5x3 over 2 values, 2x4, 4x2 over 3 values), prints the diagram that
LowerStar.tla assigns to each (CASE lines) and checks in the model that this diagram (elder rule / Alexander duality)
is the one Persistence.tla computes on the explicitly built lower-star complex.  harness/lstar_cases runs the real
routines on every case in every variant (filtration / index types, containers, comparators, value and index mode).
code -> spec: harness/lstar_record drives the routines with random tie-rich inputs (sequences up to 40, rectangles up
to 6x7) and Trace_LowerStar.tla must accept every recorded call."""
import hashlib
import json
import os
import re
import shutil
import subprocess
from concurrent.futures import ThreadPoolExecutor

import vf

PROP = "C14"
MODULE = "MC_LowerStar"
PAR = 4  # shared machine: at most 4 TLC processes / compiles / harness shards at once
XSS = ("-Xss256m",)  # the column reduction of Persistence.tla recurses once per cell

# (part, cfg, number of TLC processes the cases are split over)
QUICK_MODELS = [
    ("line_len7_4values", "MC_LowerStar_line_q.cfg", 2),
    ("line_weak_orders_len6", "MC_LowerStar_lweak_q.cfg", 1),
    ("line_permutations_len7", "MC_LowerStar_lperm_q.cfg", 1),
    ("weak_2x2", "MC_LowerStar_w2x2.cfg", 1),
    ("weak_2x3", "MC_LowerStar_w2x3_q.cfg", 2),
    ("weak_3x2", "MC_LowerStar_w3x2_q.cfg", 2),
    ("vals_3x3_3values", "MC_LowerStar_v3x3_3q.cfg", 4),
    ("vals_3x4_2values", "MC_LowerStar_v3x4_2.cfg", 1),
    ("vals_4x3_2values", "MC_LowerStar_v4x3_2.cfg", 1),
]
THOROUGH_MODELS = [
    ("line_len8_5values", "MC_LowerStar_line_t.cfg", 4),
    ("line_weak_orders_len7", "MC_LowerStar_lweak_t.cfg", 2),
    ("line_permutations_len8", "MC_LowerStar_lperm_t.cfg", 2),
    ("weak_2x2", "MC_LowerStar_w2x2.cfg", 1),
    ("weak_2x3", "MC_LowerStar_w2x3_t.cfg", 4),
    ("weak_3x2", "MC_LowerStar_w3x2_t.cfg", 4),
    ("vals_3x3_3values", "MC_LowerStar_v3x3_3t.cfg", 4),
    ("vals_3x3_4values", "MC_LowerStar_v3x3_4t.cfg", 8),
    ("vals_3x4_2values", "MC_LowerStar_v3x4_2.cfg", 1),
    ("vals_4x3_2values", "MC_LowerStar_v4x3_2.cfg", 1),
    ("vals_4x4_2values", "MC_LowerStar_v4x4_2t.cfg", 4),
    ("vals_3x5_2values", "MC_LowerStar_v3x5_2t.cfg", 2),
    ("vals_5x3_2values", "MC_LowerStar_v5x3_2t.cfg", 2),
    ("vals_2x4_3values", "MC_LowerStar_v2x4_3t.cfg", 1),
    ("vals_4x2_3values", "MC_LowerStar_v4x2_3t.cfg", 1),
]


# ------------------------------------------------------------------------------------------ known finding
def shared_corner_overwrite(rows, cols, vals):
    """Input predicate of C14-rect-two-rows-shared-corner-vertex.  With exactly 2 rows or 2 columns an inner vertex
    is shared by several corner squares; fill_and_pair marks it once per corner (order: squares 0, cols-1,
    (rows-1)*cols, rows*cols-1) and the value of the LAST one stays although another of these corners is the smallest
    of the 4 squares around the vertex and strictly smaller than that last one."""
    if rows != 2 and cols != 2:
        return False
    dy, sx, sy = cols, cols - 1, rows - 1
    # (corner square, its inner vertex); a vertex has the index of the square at its bottom left
    corners = [(0, 0), (sx, sx - 1), (dy * sy, dy * sy - dy), (sx + dy * sy, sx + dy * sy - dy - 1)]
    by_vertex = {}
    for sq, v in corners:
        by_vertex.setdefault(v, []).append(sq)
    for v, sqs in by_vertex.items():
        if len(sqs) < 2:
            continue
        last = sqs[-1]
        owner = min([v, v + 1, v + dy, v + dy + 1], key=lambda s: (vals[s], s))
        if owner in sqs and owner != last and vals[owner] < vals[last]:
            return True
    return False


# only the dimension 0 output and the returned minimum depend on the vertex values
KNOWN_PATHS = {"returned_minimum", "out0", "out0.negative"}


def _is_shared_corner(dev):
    a = dev.get("act", {})
    return (dev.get("op") in ("rect", "rect_idx") and "rows" in a
            and set(d["path"] for d in dev.get("diffs", [])) <= KNOWN_PATHS
            and shared_corner_overwrite(a["rows"], a["cols"], a["vals"]))


MATCHERS = {"C14-rect-two-rows-shared-corner-vertex": _is_shared_corner}


# ------------------------------------------------------------------------------------------ TLC runs
class Agg:
    """sum of the shards of one model"""

    def __init__(self):
        self.distinct = self.generated = self.depth = 0
        self.wall = 0.0
        self.coverage = {}
        self.outfiles = []


def run_models(models, timeout):
    jobs = [(part, cfg, s, n) for part, cfg, n in models for s in range(n)]
    jobs.sort(key=lambda j: -j[3])  # the sharded (long) ones first

    def one(j):
        part, cfg, s, n = j
        return j, vf.tlc(MODULE, cfg, workers=1, timeout=timeout, heap="3g", extra_java=XSS,
                         env={"SHARD": str(s), "NSHARDS": str(n)}, tag="lstar-%s-%d-%d" % (part, s, os.getpid()))
    res = {}
    with ThreadPoolExecutor(PAR) as ex:
        for (part, cfg, s, n), r in ex.map(one, jobs):
            if r.violation or not r.ok:
                # an in-model theorem failed: no code is involved, the specification is broken
                raise vf.Infra("in-model theorem violated in %s/%s shard %d:\n%s" % (MODULE, cfg, s, (r.violation or r.text)[-3000:]))
            a = res.setdefault(part, Agg())
            a.distinct += r.distinct
            a.generated += r.generated
            a.depth = max(a.depth, r.depth)
            a.wall = max(a.wall, r.wall)
            a.outfiles.append(r.outfile)
    return res


def validate(path, tag, timeout):
    """Trace_LowerStar judges every line on its own: REJECT lines name the events that do not conform."""
    r = vf.tlc("Trace_LowerStar", "Trace_LowerStar.cfg", workers=1, env={"TRACE": path}, timeout=timeout, tag=tag,
               allow_violation=True, heap="3g", extra_java=XSS)
    info, rejects = None, []
    for t, o in vf.emits(r.outfile, ("TRACE", "REJECT")):
        if t == "TRACE":
            info = o
        else:
            rejects.append(o)
    if info is None or not info["accepted"] or r.violation:
        raise vf.Infra("trace spec Trace_LowerStar did not read %s to the end:\n%s" % (path, r.text[-3000:]))
    info.update(file=path, generated=r.generated, wall=r.wall, rejects=rejects)
    return info


# ------------------------------------------------------------------------------------------ decision-tree coverage
def coverage_build(work):
    """gcov-instrumented copy of the case runner (own object directory, nothing is written outside build/)."""
    d = os.path.join(work, "cov")
    os.makedirs(d, exist_ok=True)
    exe = os.path.join(d, "lstar_cases_cov")
    cmd = ["g++", "-std=c++17", "-O0", "--coverage", "-w", "-D" + vf.GUARD] + vf.inc_flags() + \
          [os.path.join(vf.HARNESS, "lstar_cases.cpp"), "-o", exe, "-lboost_json", "-lpthread"]
    try:
        r = subprocess.run(cmd, capture_output=True, timeout=600, cwd=d)
    except subprocess.TimeoutExpired:
        raise vf.Infra("coverage build timeout")
    if r.returncode != 0:
        raise vf.Infra("coverage build failed:\n%s" % r.stderr.decode()[-3000:])
    return d, exe


def coverage_report(d, exe, cases_path):
    """Which lines of fill_and_pair (the hand-unrolled decision tree) and of the line routine did the enumerated
    cases execute.  Informative: failure to measure is not a failure of the check."""
    try:
        vf.run([exe, cases_path, os.path.join(d, "out.ndjson")], timeout=900, cwd=d, ok_codes=(0, 3))
        gcno = [f for f in os.listdir(d) if f.endswith(".gcno")]
        if not gcno:
            return {"measured": False, "why": "no .gcno file"}
        g = subprocess.run(["gcov", "-t", gcno[0]], capture_output=True, timeout=300, cwd=d)
        txt = g.stdout.decode(errors="replace")
    except (vf.Infra, subprocess.TimeoutExpired, OSError) as e:
        return {"measured": False, "why": str(e)[:300]}
    rep = {"measured": True}
    cur = None
    lines = {}
    for ln in txt.splitlines():
        m = re.match(r"\s*-:\s+0:Source:(.*)$", ln)
        if m:
            cur = os.path.basename(m.group(1))
            continue
        m = re.match(r"\s*([^:]+):\s*(\d+):(.*)$", ln)
        if m and cur in ("Persistence_on_rectangle.h", "Persistence_on_a_line.h"):
            cnt, no, src = m.group(1).strip(), int(m.group(2)), m.group(3)
            lines.setdefault(cur, {})
            prev = lines[cur].get(no)
            hit = None if cnt == "-" else (0 if cnt.startswith("#") or cnt.startswith("=") else 1)
            if prev is None or (hit is not None and (prev[0] is None or hit > prev[0])):
                lines[cur][no] = (hit, src)
    for fn, key, start, stop in (("Persistence_on_rectangle.h", "rectangle_fill_and_pair", "void fill_and_pair()", "void sort_edges()"),
                                 ("Persistence_on_rectangle.h", "rectangle_primal_dual", "void primal(", "// Ideas for improvement"),
                                 ("Persistence_on_a_line.h", "line_routine", "void compute_persistence_of_function_on_line", "} // namespace")):
        ls = lines.get(fn, {})
        a = [n for n, (h, s) in ls.items() if start in s]
        b = [n for n, (h, s) in ls.items() if stop in s]
        if not a or not b:
            rep[key] = "not found"
            continue
        rng = [n for n in sorted(ls) if a[0] <= n < b[0] and ls[n][0] is not None]
        miss = [n for n in rng if ls[n][0] == 0 and "Bug in Gudhi" not in ls[n][1]]
        rep[key] = {"executable_lines": len(rng), "executed": len(rng) - len(miss), "not_executed_lines": miss[:40]}
    rep["note"] = ("line coverage measured with gcov on an instrumented copy of the case runner; the only lines of the line "
                   "routine the cases cannot execute are 'case 1: goto state1down' under the label down (dead code: every "
                   "jump to down leaves an even number >= 2 of elements in data)")
    return rep


# ------------------------------------------------------------------------------------------ main
def main(tier):
    ev = vf.Evidence(PROP, tier)
    fnd = vf.Findings()
    work = os.path.join(vf.BUILD, "lstar", "%s-%d" % (tier, os.getpid()))
    os.makedirs(work, exist_ok=True)
    with ThreadPoolExecutor(PAR) as ex:
        fb = ex.submit(vf.build_many, [dict(name="lstar_cases", src="lstar_cases.cpp"),
                                       dict(name="lstar_cases_ndebug", src="lstar_cases.cpp", defines=("NDEBUG",)),
                                       dict(name="lstar_record", src="lstar_record.cpp")], 3)
        fc = ex.submit(coverage_build, work)
        bin_cases, bin_cases_nd, bin_record = fb.result()
        cov_dir, cov_exe = fc.result()
    models = QUICK_MODELS if tier == "quick" else THOROUGH_MODELS
    results = run_models(models, 900 if tier == "quick" else 1150)

    # ---- the bounded model: every case on the real code
    cases_path = os.path.join(work, "cases.ndjson")
    ncases = 0
    nontrivial = 0
    with open(cases_path, "w") as f:
        for part, cfg, nsh in models:
            a = results[part]
            n = nt = 0
            for of in a.outfiles:
                for tag, o in vf.emits(of, ("CASE",)):
                    n += 1
                    if o.get("pairs") or o.get("d0") or o.get("d1"):
                        nt += 1
                        if nt in (5, 400):
                            ev.sample({"part": part, "case": o}, 6)
                    f.write(json.dumps(o, separators=(",", ":")) + "\n")
            if n == 0 or n != a.distinct:
                raise vf.Infra("model %s: %d cases emitted for %d states" % (cfg, n, a.distinct))
            ev.add_tlc(part, a, {"cases": n, "with_nonempty_diagram": nt, "tlc_processes": nsh})
            ncases += n
            nontrivial += nt
    runs = [(b, i) for b in (bin_cases, bin_cases_nd) for i in range(PAR)]
    outs = [os.path.join(work, "cases_out_%d_%d.ndjson" % (k, i)) for k, (b, i) in enumerate(runs)]
    vf.run_parallel([[b, cases_path, outs[k], str(i), str(PAR)] for k, (b, i) in enumerate(runs)], par=PAR,
                    timeout=900, ok_codes=(0, 3))
    unknown = []
    summ = {"cases": 0, "evaluations": 0, "deviations": 0, "deviations_dropped": 0, "pairs_reported": 0, "zero_length_pairs_reported": 0,
            "index_pairs_between_equal_values": 0}
    ops = {}
    nsumm = 0
    for o in outs:
        for rec in vf.read_ndjson(o):
            k = rec.get("kind")
            if k == "summary":
                nsumm += 1
                for key in summ:
                    summ[key] += rec[key]
                for a, b in rec["ops"].items():
                    ops[a] = ops.get(a, 0) + b
            elif k == "deviation":
                if fnd.match(PROP, rec, MATCHERS) is None:
                    unknown.append(rec)
            elif k == "crash":
                unknown.append(rec)
    if summ["deviations_dropped"]:
        unknown.append({"kind": "deviations_not_examined", "count": summ["deviations_dropped"]})
    if nsumm != len(runs) and not unknown:
        raise vf.Infra("lstar_cases: %d of %d shards finished" % (nsumm, len(runs)))
    if summ["cases"] != 2 * ncases and not unknown:
        raise vf.Infra("lstar_cases ran %d of %d cases" % (summ["cases"], 2 * ncases))
    ev.parts["replay"] = dict(summ, builds=["assertions on (GUDHI_CHECK active)", "NDEBUG"], ops=ops)
    ev.parts["code_lines_executed_by_the_cases"] = coverage_report(cov_dir, cov_exe, cases_path)

    # ---- recorded executions validated by the trace specification
    nfiles, nev = (3, 1500) if tier == "quick" else (7, 6000)
    tdir = os.path.join(work, "traces")
    os.makedirs(tdir, exist_ok=True)
    paths = [os.path.join(tdir, "t%d.ndjson" % i) for i in range(nfiles + 1)]
    kinds = ["main"] * nfiles + ["thin"]  # the last file: 2 rows or 2 columns only (known finding lives there)
    recs = vf.run_parallel([[bin_record, paths[i], str(vf.seed() * 1000 + i), str(nev if kinds[i] == "main" else nev // 3), kinds[i]]
                            for i in range(nfiles + 1)], par=PAR, timeout=600, ok_codes=(0, 3))
    for i, p in enumerate(recs):
        if p.returncode == 3:
            unknown.append({"kind": "crash", "where": "lstar_record", "file": paths[i]})
    with ThreadPoolExecutor(PAR) as ex:
        infos = list(ex.map(lambda ip: validate(ip[1], "lstar-trace-%d-%d" % (ip[0], os.getpid()), 1000),
                            [(i, p) for i, p in enumerate(paths) if recs[i].returncode == 0]))
    nevents = 0
    ev_hash = set()
    accepted_files = 0
    for info in infos:
        lines = open(info["file"]).read().splitlines()
        nevents += info["matched"]
        ev.cov["transitions"] += info["generated"]
        bad = 0
        for rj in info["rejects"]:
            e = json.loads(lines[rj["line"] - 1])
            dev = {"kind": "trace_rejected", "op": e.get("op"), "cfg": e.get("variant"), "file": info["file"], "line": rj["line"],
                   "act": {k: e[k] for k in ("rows", "cols", "vals", "cmp") if k in e},
                   "diffs": [{"path": p, "exp": None, "got": None} for p in rj["fails"]], "event": e}
            if fnd.match(PROP, dev, MATCHERS) is None:
                unknown.append(dev)
                bad += 1
        accepted_files += 1 if bad == 0 else 0
        for k, line in enumerate(lines):
            ev_hash.add(hashlib.md5(line.encode()).digest())
            if k in (2, 9) and info["file"] == paths[0]:
                ev.sample({"part": "trace", "event": json.loads(line)}, 8)
    ev.cov["traces_validated_against_impl"] = accepted_files
    ev.parts["traces"] = {"files": len(infos), "events": nevents, "distinct_events": len(ev_hash),
                          "events_rejected": sum(len(i["rejects"]) for i in infos)}

    ev.cov["evaluations"] = summ["evaluations"] + nevents
    ev.cov["distinct_nontrivial"] = nontrivial + len(ev_hash)
    ev.cov["exhaustive"] = True
    ev.cov["rule"] = ("every input of the bounded families listed in parts (all sequences up to the length bound over the value "
                      "set, all weak orders of the squares of 2x2 / 2x3 / 3x2, all R x C arrays over the value set), expected "
                      "diagram computed by TLC from LowerStar.tla and proved equal in the model to Persistence.tla on the explicit "
                      "lower-star complex (on all cases or on the stated fraction), each run on the real routines in 8 (line) resp. "
                      "7 (rectangle) variants x 2 builds; plus recorded random calls (length <= 40, up to 42 squares) judged line by "
                      "line by Trace_LowerStar.tla. distinct = cases with a non-empty finite diagram + distinct recorded events")
    ev.assumptions = [
        "line: the values sit on the vertices, an edge has the max of its ends (PL function); rectangle: values on the squares in "
        "C order, faces have the min of their squares (header documentation)",
        "the rectangle routine may report pairs with b = d (different squares of equal value, or in index mode different indices "
        "of equal value): the documented callers drop them, so does the comparison (counted: zero_length_pairs_reported); a pair "
        "with d < b is a deviation.  The line routine documents that such pairs are not output: one would be a deviation",
        "index mode: ties make the indices non-unique; checked: every index is a square of the input, equality of the bags after "
        "mapping indices to values, returned index carries the minimum, no two dimension-1 intervals die at the same square, no "
        "two dimension-0 intervals are born at the same square nor at the returned one",
        "order of the calls is not documented (except that the line routine ends with (minimum, +inf)): bags are compared",
        "finite integer-valued inputs only (exact in float / double / long double / int); no NaN, no infinite value",
    ]
    fnd.report(PROP)
    if unknown:
        ev.violations = len(unknown)
        p = vf.save_replay(PROP, "deviations", unknown[:50])
        ev.write()
        vf.violation(PROP, p)
        return 1
    ev.write()
    # nothing to replay: drop the case file, the traces and the TLC outputs of this run
    shutil.rmtree(work, ignore_errors=True)
    for part, cfg, nsh in models:
        for s in range(nsh):
            shutil.rmtree(os.path.join(vf.BUILD, "tlc", "lstar-%s-%d-%d" % (part, s, os.getpid())), ignore_errors=True)
    for i in range(nfiles + 1):
        shutil.rmtree(os.path.join(vf.BUILD, "tlc", "lstar-trace-%d-%d" % (i, os.getpid())), ignore_errors=True)
    return 0
