"""C06 - vineyard swaps and cell removals leave the matrix as if rebuilt from scratch."""
import vf
from checks import pm_common

PROP = "C06"

def _rem(h):
    return any(x in ("remove_last", "remove_maximal") for x in h)


def _m_ru_map(dev):
    h = dev.get("hist", []) + [dev.get("act", {}).get("op")]
    return dev.get("cfg", "").startswith("RUv/") and "/map" in dev.get("cfg", "") and _rem(dev.get("hist", [])) \
        and "insert" in dev.get("hist", []) and h[-1] in ("vine_swap", "remove_maximal", "insert", "remove_last") \
        and ("vine_swap" in h or "remove_maximal" in h)


def _m_chain(dev):
    h = dev.get("hist", []) + [dev.get("act", {}).get("op")]
    return dev.get("cfg", "").startswith("CHv/") and _rem(dev.get("hist", [])) and "vine_swap" in h


def _m_ru_nobarcode(dev):
    return dev.get("cfg", "").startswith("RUv/") and "/nobarcode/map" in dev.get("cfg", "") \
        and dev.get("act", {}).get("op") in ("vine_swap", "remove_maximal")


def _m_chain_insert_after_swap(dev):
    cfg = dev.get("cfg", "")
    return cfg.startswith("CHv/") and "INTRUSIVE" not in cfg and "vine_swap" in dev.get("hist", []) \
        and "insert" in (dev.get("hist", [])[dev.get("hist", []).index("vine_swap"):] + [dev.get("act", {}).get("op")])


# Only findings with status "known" in known_findings.json can match; the chain matchers are kept for C15's
# classification of sanitizer reports on the same configurations but have no entry any more.
MATCHERS = {"C06-ru-map-removal-then-swap": _m_ru_map, "C06-ru-nobarcode-map": _m_ru_nobarcode}
OLD_CHAIN_MATCHERS = {"C06-chain-removal-and-swap": _m_chain, "C06-chain-insert-after-swap": _m_chain_insert_after_swap}



def witness_ru_vine_ids(fnd, bins):
    """Known finding C06-ru-vine-ids: RU + vine updates with identifiers different from positions.  Replays the
    two-step witness (insert a vertex with identifier 2, remove_last) and reports it only if it still fails."""
    import json, os
    work = os.path.join(vf.BUILD, "work", "%s_witness_%d" % (PROP, os.getpid()))
    os.makedirs(work, exist_ok=True)
    st = [{"i": 0, "obs": {"n": 0, "dims": [], "bars_set": [], "checks_failed": []}},
          {"i": 1, "obs": {"n": 1, "dims": [0], "bars_set": [{"dim": 0, "birth": 0, "death": -1}], "checks_failed": []}}]
    with open(os.path.join(work, "states.ndjson"), "w") as f:
        for s in st:
            f.write(json.dumps(s) + "\n")
    with open(os.path.join(work, "groups.ndjson"), "w") as f:
        f.write(json.dumps({"u": 1, "path": [{"act": {"op": "insert", "d": 0, "bd_set": []}, "to": 1}],
                            "edges": [{"k": 0, "act": {"op": "remove_last"}, "to": 0}]}) + "\n")
    out = os.path.join(work, "out.ndjson")
    vf.run([bins[0], os.path.join(work, "states.ndjson"), os.path.join(work, "groups.ndjson"), out],
           env={"VF_IDS": "gap", "VF_P": "2"}, ok_codes=(0, 3), timeout=120)
    bad = [r for r in vf.read_ndjson(out) if r.get("kind") in ("crash", "deviation") and "RUv/" in json.dumps(r)]
    if bad:
        fnd.seen["C06-ru-vine-ids"] = len(bad)


def main(tier):
    ev = vf.Evidence(PROP, tier)
    fnd = vf.Findings()
    cols = pm_common.pick_cols(tier)
    bins, jobs = pm_common.build(1, cols, zp=False)
    z2bins = [b for b, j in zip(bins, jobs) if "VF_Z2=1" in j["defines"]]
    zpbins = [b for b, j in zip(bins, jobs) if "VF_Z2=0" in j["defines"]]
    unknown = []
    total = 0
    plan = [("vine_z2", "MC_Vineyard_z2.cfg" if tier == "quick" else "MC_Vineyard_z2_t.cfg", z2bins, 2)]
    for part, cfg, bs, p in plan:
        r, g, summ, devs, crashes = pm_common.run_model(ev, part, cfg, bs, p, walks=400 if tier == "quick" else 4000,
                                                        walk_len=16)
        if r.violation:
            pth = vf.save_replay(PROP, part + "_model", {"tlc": r.violation})
            vf.violation(PROP, pth)
            ev.violations += 1
            ev.write()
            return 1
        for c in crashes:
            cd = pm_common.crash_as_dev(PROP, c, part)
            if fnd.match(PROP, cd, MATCHERS) is None:
                unknown.append({"part": part, **c})
        for d in devs:
            if fnd.match(PROP, d, MATCHERS) is None:
                unknown.append({"part": part, **d})
        total += ev.parts[part]["replay"]["behaviours"]
        k = next((e for e in g.out[g.init]), None)
        ev.sample({"part": part, "edge": {"act": k[0], "to_obs": g.obs[k[1]]}}, 3)
    # code -> spec: free-running walks through filtration orders of complexes with up to 14 cells, matrices logged,
    # barcode / truthfulness of the returned value / identities evaluated by TLC (Trace_PersistenceMatrix.tla)
    unknown += pm_common.trace_part(ev, PROP, "traces_vine_z2", 1, z2bins, 2, True, 40 if tier == "quick" else 160, 36, 14, MATCHERS, fnd)
    total += ev.parts["traces_vine_z2"]["events_matched"]
    ev.cov["evaluations"] = total
    ev.cov["distinct_nontrivial"] = ev.cov["states"]
    ev.cov["exhaustive"] = True
    ev.cov["rule"] = ("every filtered cell complex with <= N cells over Z2 enumerated by TLC together with every admissible "
                      "transposition, maximal-cell removal, insertion and remove_last; every transition and random walks through "
                      "the graph of filtration orders replayed on each vine-enabled Matrix instantiation (column types %s x RU/chain "
                      "x indexing x barcode on/off); barcode, return value (kept/exchanged) and identities compared after every step"
                      % [pm_common.COLS[c] for c in cols])
    ev.assumptions = ["bounded: <= 5 (quick) / 6 (thorough) cells over Z2, walks of 16 steps", "identities evaluated by the harness on the real columns"]
    witness_ru_vine_ids(fnd, z2bins)
    fnd.report(PROP)
    if unknown:
        ev.violations = len(unknown)
        pth = vf.save_replay(PROP, "deviations", unknown[:60])
        ev.write()
        vf.violation(PROP, pth)
        return 1
    ev.write()
    return 0
