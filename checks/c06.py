"""C06 - vineyard swaps and cell removals leave the matrix as if rebuilt from scratch."""
import vf
from checks import pm_common

PROP = "C06"
MATCHERS = {}


def main(tier):
    ev = vf.Evidence(PROP, tier)
    fnd = vf.Findings()
    cols = pm_common.pick_cols(tier)
    bins, jobs = pm_common.build(1, cols, zp=False)
    z2bins = [b for b, j in zip(bins, jobs) if "VF_Z2=1" in j["defines"]]
    zpbins = [b for b, j in zip(bins, jobs) if "VF_Z2=0" in j["defines"]]
    unknown = []
    total = 0
    plan = [("vine_z2", "MC_Vineyard_z2.cfg" if tier == "quick" else "MC_Vineyard_z2_t.cfg", z2bins, 2)]
    for part, cfg, bs, p in plan:
        r, g, summ, devs, crashes = pm_common.run_model(ev, part, cfg, bs, p, walks=400 if tier == "quick" else 4000,
                                                        walk_len=16)
        if r.violation:
            pth = vf.save_replay(PROP, part + "_model", {"tlc": r.violation})
            vf.violation(PROP, pth)
            ev.violations += 1
            ev.write()
            return 1
        for c in crashes:
            unknown.append({"part": part, **c})
        for d in devs:
            if fnd.match(PROP, d, MATCHERS) is None:
                unknown.append({"part": part, **d})
        total += ev.parts[part]["replay"]["behaviours"]
        k = next((e for e in g.out[g.init]), None)
        ev.sample({"part": part, "edge": {"act": k[0], "to_obs": g.obs[k[1]]}}, 3)
    ev.cov["evaluations"] = total
    ev.cov["distinct_nontrivial"] = ev.cov["states"]
    ev.cov["exhaustive"] = True
    ev.cov["rule"] = ("every filtered cell complex with <= N cells over Z2 enumerated by TLC together with every admissible "
                      "transposition, maximal-cell removal, insertion and remove_last; every transition and random walks through "
                      "the graph of filtration orders replayed on each vine-enabled Matrix instantiation (column types %s x RU/chain "
                      "x indexing x barcode on/off); barcode, return value (kept/exchanged) and identities compared after every step"
                      % [pm_common.COLS[c] for c in cols])
    ev.assumptions = ["bounded: <= 5 (quick) / 6 (thorough) cells over Z2, walks of 16 steps", "identities evaluated by the harness on the real columns"]
    fnd.report(PROP)
    if unknown:
        ev.violations = len(unknown)
        pth = vf.save_replay(PROP, "deviations", unknown[:60])
        ev.write()
        vf.violation(PROP, pth)
        return 1
    ev.write()
    return 0
