"""C09: the DenseMatrix.tla / CompressedMatrix.tla bounded models, their replay on real "basic" matrices and the
validation of recorded executions.  (Also usable by C15 for Matrix payloads.)"""
import glob
import json
import os
import random
import re
import vf

TYPES = ["LIST", "SET", "HEAP", "VECTOR", "NAIVE_VECTOR", "SMALL_VECTOR", "UNORDERED_SET", "INTRUSIVE_LIST",
         "INTRUSIVE_SET"]
QUICK_TYPES = [2, 3, 8]          # HEAP (lazy sums), VECTOR (lazy removal), INTRUSIVE_SET (the default)
PAR = int(os.environ.get("VERIF_PAR", str(min(vf.NCPU, 8))))
RANGE_OPS = ("add_r", "mta_r", "msa_r")
INDEX_OPS = ("add", "mta", "msa")


# --------------------------------------------------------------------------- build
def build_replay(tier, types=None, sanitize=None):
    """One translation unit per (column type, part); returns {(ct, part): binary}."""
    types = types if types is not None else (QUICK_TYPES if tier == "quick" else list(range(9)))
    jobs, keys = [], []
    for ct in types:
        for part in (0, 1, 2):
            if part == 2 and TYPES[ct] == "HEAP":
                continue  # heap columns are not compatible with column compression
            d = ["VF_CT=%d" % ct, "VF_PART=%d" % part, "VF_QUICK=%d" % (1 if tier == "quick" else 0)]
            jobs.append(dict(name="dense_replay_%s_p%d_%s%s" % (TYPES[ct].lower(), part, tier[0], "_san" if sanitize else ""),
                             src="dense_replay.cpp", defines=d, sanitize=sanitize))
            keys.append((ct, part))
    bins = vf.build_many(jobs, par=min(PAR, 8))
    return dict(zip(keys, bins))


# --------------------------------------------------------------------------- configuration classes
# (name, VF_FILTER tokens, operations the class cannot execute)
PLAIN_CLASSES = [
    ("vec_sw0_ra0", "/vec/,/sw0/,/ra0/,/plain", {"remove_col", "swap_cols", "swap_rows", "flush"}),
    ("vec_sw0_ra",  "/vec/,/sw0/,!/ra0/,/plain", {"remove_col", "swap_cols", "swap_rows", "flush", "insert_at"}),
    ("vec_sw1_ra0", "/vec/,/sw1/,/ra0/,/plain", {"remove_col"}),
    ("vec_sw1_ra",  "/vec/,/sw1/,!/ra0/,/plain", {"remove_col", "insert_at"}),
    ("map_sw0_ra0", "/map/,/sw0/,/ra0/,/plain", {"swap_cols", "swap_rows", "flush"}),
    ("map_sw0_ra",  "/map/,/sw0/,!/ra0/,/plain", {"swap_cols", "swap_rows", "flush", "insert_at"}),
    ("map_sw1_ra0", "/map/,/sw1/,/ra0/,/plain", set()),
    ("map_sw1_ra",  "/map/,/sw1/,!/ra0/,/plain", {"insert_at"}),
]
COMP_CLASS = ("comp", "/comp", set())


class Graph(vf.StateGraph):
    """StateGraph with a path cover in which some edges may be excluded from the BFS tree only (they are
    still replayed as the last step of a behaviour) or excluded altogether."""

    def cover(self, states_path, groups_path, ban_ops=frozenset(), banned=None, tree_banned=None,
              max_edges_per_state=None, rnd=None, write_states=True, walks=0, walk_len=8, walk_edges=12,
              tree_banned_keep=None):
        banned = banned or (lambda u, k, a: False)
        tree_banned = tree_banned or (lambda u, k, a: False)
        parent = {self.init: None}
        order = [self.init]
        qi = 0
        while qi < len(order):
            u = order[qi]
            qi += 1
            for k, (a, v) in enumerate(self.out[u]):
                if v in parent or a.get("op") in ban_ops or banned(u, k, a) or tree_banned(u, k, a):
                    continue
                parent[v] = (u, k)
                order.append(v)
        if write_states:
            with open(states_path, "w") as f:
                for i, o in enumerate(self.obs):
                    f.write(json.dumps({"i": i, "obs": o}, separators=(",", ":")) + "\n")
        nb = 0
        self.tree_edge = {}   # (u, step) -> (a, k) of the BFS tree path to u
        with open(groups_path, "w") as f:
            for u in order:
                pe = self.path_to(parent, u)
                path = [{"act": self.out[a][k][0], "to": self.out[a][k][1]} for a, k in pe]
                ks = [k for k in range(len(self.out[u]))
                      if self.out[u][k][0].get("op") not in ban_ops and not banned(u, k, self.out[u][k][0])]
                if tree_banned_keep is not None and rnd:
                    # edges kept out of the tree are executed in a child process each: replay a sample of them
                    tb = [k for k in ks if tree_banned(u, k, self.out[u][k][0])]
                    if len(tb) > tree_banned_keep:
                        drop = set(tb) - set(rnd.sample(tb, tree_banned_keep))
                        ks = [k for k in ks if k not in drop]
                if max_edges_per_state and len(ks) > max_edges_per_state and rnd:
                    ks = sorted(rnd.sample(ks, max_edges_per_state))
                if not ks:
                    continue
                for s, e in enumerate(pe):
                    self.tree_edge[(u, s)] = e
                nb += len(ks)
                edges = [{"k": k, "act": self.out[u][k][0], "to": self.out[u][k][1]} for k in ks]
                f.write(json.dumps({"u": u, "path": path, "edges": edges}, separators=(",", ":")) + "\n")
            # random walks: behaviours that are NOT shortest paths, so that the lazy internal state of the real
            # object (pending swaps, lazily erased entries, unpruned heaps) differs from the one the BFS tree builds;
            # every step of the walk is checked, then a sample of the edges of its last state
            self.walks = []
            for w in range(walks if rnd else 0):
                u = self.init
                pe = []
                for _ in range(rnd.randint(2, walk_len)):
                    ks = [k for k, (a, v) in enumerate(self.out[u])
                          if a.get("op") not in ban_ops and not banned(u, k, a) and not tree_banned(u, k, a)]
                    # prefer steps that change the state or set up lazy state
                    ks2 = [k for k in ks if self.out[u][k][1] != u or self.out[u][k][0].get("op") in ("zero_entry", "swap_rows", "swap_cols")]
                    ks = ks2 or ks
                    if not ks:
                        break
                    k = rnd.choice(ks)
                    pe.append((u, k))
                    u = self.out[u][k][1]
                lazy_end = False
                if w % 2 == 0:
                    ks = [k for k, (a, v) in enumerate(self.out[u])
                          if a.get("op") in ("zero_entry", "swap_rows", "swap_cols") and a.get("op") not in ban_ops
                          and not banned(u, k, a) and not tree_banned(u, k, a)]
                    if ks:
                        k = rnd.choice(ks)
                        pe.append((u, k))
                        u = self.out[u][k][1]
                        lazy_end = True
                ks = [k for k in range(len(self.out[u]))
                      if self.out[u][k][0].get("op") not in ban_ops and not banned(u, k, self.out[u][k][0])]
                if not pe or not ks:
                    continue
                if len(ks) > walk_edges * (6 if lazy_end else 1):
                    ks = sorted(rnd.sample(ks, walk_edges * (6 if lazy_end else 1)))
                wid = -(len(self.walks) + 1)
                self.walks.append((pe, u))
                for s_, e in enumerate(pe):
                    self.tree_edge[(wid, s_)] = e
                nb += len(ks)
                path = [{"act": self.out[a][k][0], "to": self.out[a][k][1]} for a, k in pe]
                edges = [{"k": k, "act": self.out[u][k][0], "to": self.out[u][k][1]} for k in ks]
                f.write(json.dumps({"u": wid, "path": path, "edges": edges}, separators=(",", ":")) + "\n")
        self.parent = parent
        return nb, len(order)

    def history(self, u):
        """actions and source states along the BFS tree path to u (of the last cover)"""
        if u < 0:
            return [(a, self.out[a][k][0]) for a, k in self.walks[-u - 1][0]]
        return [(a, self.out[a][k][0]) for a, k in self.path_to(self.parent, u)]

    def end_state(self, u):
        return self.walks[-u - 1][1] if u < 0 else u


def colmap(obs):
    return {c["c"]: c for c in obs["cols_set"]}


# --------------------------------------------------------------------------- running a replay
def run_replay(graph, bins, workdir, env, ban_ops, banned=None, tree_banned=None, shards=1, max_edges_per_state=None,
               rnd=None, timeout=1100, walks=0, walk_len=8, walk_edges=12, tree_banned_keep=None):
    os.makedirs(workdir, exist_ok=True)
    sp = os.path.join(workdir, "states.ndjson")
    gp = os.path.join(workdir, "groups.ndjson")
    nb, nreach = graph.cover(sp, gp, ban_ops=ban_ops, banned=banned, tree_banned=tree_banned,
                             max_edges_per_state=max_edges_per_state, rnd=rnd, walks=walks, walk_len=walk_len,
                             walk_edges=walk_edges, tree_banned_keep=tree_banned_keep)
    cmds, outs = [], []
    for bi, b in enumerate(bins):
        for i in range(shards):
            o = os.path.join(workdir, "out_%d_%d.ndjson" % (bi, i))
            outs.append(o)
            cmds.append([b, sp, gp, o, str(i), str(shards)])
    vf.run_parallel(cmds, par=PAR, timeout=timeout, env=env, ok_codes=(0, 3))
    summaries, devs, crashes = {}, [], []
    for o in outs:
        for rec in vf.read_ndjson(o):
            k = rec.get("kind")
            if k == "summary":
                s = summaries.setdefault(rec["cfg"], {"behaviours": 0, "steps": 0, "skipped": 0, "deviations": 0})
                for f in ("behaviours", "steps", "skipped", "deviations"):
                    s[f] += rec[f]
            elif k == "deviation":
                devs.append(rec)
            elif k == "crash":
                crashes.append(rec)
        os.remove(o)
    return summaries, devs, crashes, nb, nreach


def enrich(graph, dev):
    """adds the history (actions with the observation of the state they were executed in) to a deviation"""
    u = dev["u"]
    hist = [{"act": a, "from": graph.obs[s]} for s, a in graph.history(u)]
    if dev["phase"] == "path":
        hist = hist[:dev["step"] + 1]
        dev["hist"] = hist[:-1]
        dev["from"] = hist[-1]["from"]
        dev["tree_edge"] = graph.tree_edge.get((u, dev["step"]))
        a, k = dev["tree_edge"]
        dev["to"] = graph.obs[graph.out[a][k][1]]
    else:
        dev["hist"] = hist
        dev["from"] = graph.obs[graph.end_state(u)]
        dev["to"] = graph.obs[graph.out[graph.end_state(u)][dev["k"]][1]]
    return dev


# --------------------------------------------------------------------------- traces
def build_all(tier, types=None):
    """replay and record binaries in one parallel build; returns (replay bins, record bins)"""
    types = types if types is not None else (QUICK_TYPES if tier == "quick" else list(range(9)))
    jobs, keys = [], []
    for kind, src in (("replay", "dense_replay.cpp"), ("record", "dense_record.cpp")):
        for ct in types:
            for part in (0, 1, 2):
                if part == 2 and TYPES[ct] == "HEAP":
                    continue
                d = ["VF_CT=%d" % ct, "VF_PART=%d" % part, "VF_QUICK=%d" % (1 if tier == "quick" else 0)]
                jobs.append(dict(name="dense_%s_%s_p%d_%s" % (kind, TYPES[ct].lower(), part, tier[0]), src=src, defines=d))
                keys.append((kind, ct, part))
    if tier == "quick" and types == QUICK_TYPES:
        # the six column types the quick replay leaves to the thorough tier are at least driven by the recorder
        # (Z_p plain configurations), validated by Trace_DenseMatrix.tla
        for ct in range(9):
            if ct not in QUICK_TYPES:
                jobs.append(dict(name="dense_record_%s_p1_q" % TYPES[ct].lower(), src="dense_record.cpp",
                                 defines=["VF_CT=%d" % ct, "VF_PART=1", "VF_QUICK=1"]))
                keys.append(("record", ct, 1))
    bins = vf.build_many(jobs, par=PAR)
    rep = {(ct, part): b for (kind, ct, part), b in zip(keys, bins) if kind == "replay"}
    rec = {(ct, part): b for (kind, ct, part), b in zip(keys, bins) if kind == "record"}
    return rep, rec


def build_record(tier, types=None):
    types = types if types is not None else (QUICK_TYPES if tier == "quick" else list(range(9)))
    jobs, keys = [], []
    for ct in types:
        for part in (0, 1, 2):
            if part == 2 and TYPES[ct] == "HEAP":
                continue
            d = ["VF_CT=%d" % ct, "VF_PART=%d" % part, "VF_QUICK=%d" % (1 if tier == "quick" else 0)]
            jobs.append(dict(name="dense_record_%s_p%d_%s" % (TYPES[ct].lower(), part, tier[0]), src="dense_record.cpp", defines=d))
            keys.append((ct, part))
    bins = vf.build_many(jobs, par=min(PAR, 8))
    return dict(zip(keys, bins))


def record_and_validate(ev, fnd, tier, matchers, prop="C09", bins=None):
    """Random precondition-respecting histories on 8 x 8 matrices over Z_2, Z_5, Z_7 recorded from every instantiation
    and validated by Trace_DenseMatrix.tla.  Returns the list of unexplained rejections."""
    bins = bins or build_record(tier)
    work = os.path.join(vf.BUILD, "work", "%s_traces_%d" % (prop, os.getpid()))
    os.makedirs(work, exist_ok=True)
    for f in glob.glob(os.path.join(work, "*.ndjson")):
        os.remove(f)
    avoid = ",".join(e["id"] for e in fnd.known(prop))
    quick = tier == "quick"
    # every instantiation: Z_2 configurations over Z_2, Z_p configurations over Z_5; thorough tier in addition
    # 2000-step histories over Z_7 on a pseudo-random eighth of the Z_p instantiations
    executions, steps = (2, 150) if quick else (1, 400)
    cmds = []
    for (ct, part), b in sorted(bins.items()):
        ps = [(2, executions, steps, None)] if part == 0 else [(5, executions, steps, None)]
        if part == 2:
            ps = [(2, executions, steps, None), (5, executions, steps, None)]
        if not quick and part != 0:
            ps.append((7, 1, 2000, "%d:8" % vf.seed()))
        for p, ne, ns, pick in ps:
            d = os.path.join(work, "p%d" % p)
            os.makedirs(d, exist_ok=True)
            env = {"VF_P": str(p), "VF_NR": "8", "VF_NC": "8", "VF_AVOID": avoid}
            if part == 2:
                env["VF_FILTER"] = "/z2/" if p == 2 else "/zp/"
            if pick:
                env["VF_PICK"] = pick
            cmds.append(([b, d, str(vf.seed()), str(ne), str(ns)], env))
    from concurrent.futures import ThreadPoolExecutor
    with ThreadPoolExecutor(PAR) as ex:
        futs = [ex.submit(vf.run, c, 1100, e, None, (0,)) for c, e in cmds]
        crashed = []
        for (c, e), f in zip(cmds, futs):
            try:
                f.result()
            except vf.Infra as err:
                crashed.append({"kind": "recorder_crash", "cmd": " ".join(c[:1]), "env": e, "error": str(err)[-600:]})
    rejected = list(crashed)
    nfiles = nev = 0
    ops = {}
    resumed = 0
    for p in (2, 5, 7):
        files = sorted(glob.glob(os.path.join(work, "p%d" % p, "dense_*.ndjson")))
        # executions of several configurations are concatenated (every execution starts with a reset event)
        nsh = max(1, min(PAR, len(files)))
        shards = []
        for i in range(nsh):
            part_files = files[i::nsh]
            if not part_files:
                continue
            q = os.path.join(work, "p%d" % p, "shard_%d.ndjson" % i)
            with open(q, "w") as out:
                for f in part_files:
                    out.write(open(f).read())
            shards.append(q)
        todo = shards
        while todo:
            res = vf.validate_traces("Trace_DenseMatrix", "Trace_DenseMatrix_p%d.cfg" % p, todo, par=PAR)
            nxt = []
            for r in res:
                nev += r["matched"]
                if r["accepted"]:
                    continue
                lines = open(r["file"]).read().splitlines()
                k = r["matched"]  # 0-based index of the rejected line
                evs = [json.loads(x) for x in lines[:k + 1]]
                start = max(i for i, e in enumerate(evs) if e["op"] == "reset")
                rj = {"kind": "trace_rejected", "file": r["file"], "line": k + 1, "cfg": evs[start].get("cfg", "?"),
                      "event": evs[-1], "execution": evs[start:]}
                fid = fnd.match(prop, rj, matchers)
                if fid is None:
                    rj["execution"] = rj["execution"][-40:]
                    rejected.append(rj)
                # re-synchronise: continue with the next execution of the file
                rest = [i for i in range(k + 1, len(lines)) if json.loads(lines[i])["op"] == "reset"]
                if rest:
                    q = r["file"].replace(".ndjson", "") + "_resume%d.ndjson" % resumed
                    resumed += 1
                    with open(q, "w") as f:
                        f.write("\n".join(lines[rest[0]:]) + "\n")
                    nxt.append(q)
            todo = nxt
        nfiles += len(files)
        for f in files:
            for line in open(f):
                o = json.loads(line)["op"]
                ops[o] = ops.get(o, 0) + 1
        if files:
            first = open(files[0]).read().splitlines()
            if len(first) > 5:
                ev.sample({"trace_event": json.loads(first[5])}, 5)
    if not rejected:
        import shutil
        shutil.rmtree(work, ignore_errors=True)
    ev.cov["traces_validated_against_impl"] += nfiles
    ev.parts["traces_8x8"] = {"trace_files": nfiles, "events_matched": nev, "events_by_op": ops,
                              "executions_per_file": executions, "steps_per_execution": steps,
                              "spec": "Trace_DenseMatrix.tla", "steered_around": avoid.split(",") if avoid else []}
    return rejected
