"""Shared by C05 / C06 / C08: the PersistenceMatrix.tla bounded models and their replay on Matrix instantiations."""
import os
import random
import vf

COLS = ["INTRUSIVE_SET", "INTRUSIVE_LIST", "SET", "LIST", "VECTOR", "NAIVE_VECTOR", "SMALL_VECTOR", "UNORDERED_SET", "HEAP"]


def pick_cols(tier):
    if tier == "thorough":
        return list(range(9))
    fixed = [0, 4, 8]  # INTRUSIVE_SET (default), VECTOR (lazy deletion), HEAP (lazy heap)
    rest = [c for c in range(9) if c not in fixed]
    return fixed + [rest[vf.seed() % len(rest)]]


def build(family, cols, zp=True, sanitize=None):
    jobs = []
    for c in cols:
        for z2 in ([1, 0] if zp else [1]):
            if family == 1 and not z2:
                continue
            jobs.append(dict(name="pm_f%d_c%d_z%d%s" % (family, c, z2, "_san" if sanitize else ""), src="pm_replay.cpp",
                             defines=["VF_FAMILY=%d" % family, "VF_COL=%d" % c, "VF_Z2=%d" % z2], sanitize=sanitize))
    return vf.build_many(jobs, par=min(len(jobs), 10)), jobs


def run_model(ev, part, cfg, binaries, p, walks=0, walk_len=0, shards=1, tlc_timeout=1100, max_edges_per_state=None, extra_env=None):
    r = vf.tlc("MC_PersistenceMatrix", cfg, workers=1, timeout=tlc_timeout)
    if r.violation:
        return r, None, None, None, None
    g = vf.StateGraph.from_tlc(r.outfile, init_id={"f": []})
    ev.add_tlc(part, r, {"graph_states": len(g.obs), "graph_edges": g.nedges, "cfg": cfg})
    work = os.path.join(vf.BUILD, "work", "%s_%s_%d" % (ev.prop, part, os.getpid()))
    rnd = random.Random(vf.seed())
    env = {"VF_P": str(p)}
    if os.environ.get("VF_IDS"):
        env["VF_IDS"] = os.environ["VF_IDS"]
    if extra_env:
        env.update(extra_env)
    summ, devs, crashes, nb = vf.replay(g, binaries, work, env=env, shards=shards, rnd=rnd, walks=walks, walk_len=walk_len,
                                        max_edges_per_state=max_edges_per_state)
    ev.parts[part]["replay"] = {"behaviours_in_cover": nb, "random_walks": walks, "walk_length": walk_len,
                                "configs": len(summ),
                                "behaviours": sum(s["behaviours"] for s in summ.values()),
                                "steps": sum(s["steps"] for s in summ.values()),
                                "skipped_inapplicable": sum(s["skipped"] for s in summ.values())}
    os.remove(r.outfile)
    return r, g, summ, devs, crashes


def crash_as_dev(PROP, c, part):
    """A crash record names the configuration, the group and the step: recover the history from the groups file."""
    import glob, json, os, re
    m = re.match(r"(\S+) g=(\d+) (path|edge) u=(-?\d+) (?:step|k)=(\d+)", c.get("where", ""))
    if not m:
        return {"cfg": c.get("where", "")}
    cfg, g, phase, u, x = m.group(1), int(m.group(2)), m.group(3), int(m.group(4)), int(m.group(5))
    dirs = sorted(glob.glob(os.path.join(vf.BUILD, "work", "%s_%s_%d" % (PROP, part, os.getpid()))))
    if not dirs:
        return {"cfg": cfg}
    with open(os.path.join(dirs[0], "groups.ndjson")) as f:
        for i, line in enumerate(f):
            if i == g:
                grp = json.loads(line)
                ops = [s["act"]["op"] for s in grp["path"]]
                if phase == "path":
                    return {"cfg": cfg, "hist": ops[:x], "act": {"op": ops[x] if x < len(ops) else None}}
                e = [e for e in grp["edges"] if e["k"] == x]
                return {"cfg": cfg, "hist": ops, "act": {"op": e[0]["act"]["op"] if e else None}}
    return {"cfg": cfg}


