"""Shared by C05 / C06 / C08: the PersistenceMatrix.tla bounded models and their replay on Matrix instantiations."""
import os
import random
import vf

COLS = ["INTRUSIVE_SET", "INTRUSIVE_LIST", "SET", "LIST", "VECTOR", "NAIVE_VECTOR", "SMALL_VECTOR", "UNORDERED_SET", "HEAP"]


def pick_cols(tier):
    if tier == "thorough":
        return list(range(9))
    fixed = [0, 4, 8]  # INTRUSIVE_SET (default), VECTOR (lazy deletion), HEAP (lazy heap)
    rest = [c for c in range(9) if c not in fixed]
    return fixed + [rest[vf.seed() % len(rest)]]


def build(family, cols, zp=True, sanitize=None):
    jobs = []
    for c in cols:
        for z2 in ([1, 0] if zp else [1]):
            if family == 1 and not z2:
                continue
            jobs.append(dict(name="pm_f%d_c%d_z%d%s" % (family, c, z2, "_san" if sanitize else ""), src="pm_replay.cpp",
                             defines=["VF_FAMILY=%d" % family, "VF_COL=%d" % c, "VF_Z2=%d" % z2], sanitize=sanitize))
    return vf.build_many(jobs, par=min(len(jobs), 10)), jobs


def run_model(ev, part, cfg, binaries, p, walks=0, walk_len=0, shards=1, tlc_timeout=1100, max_edges_per_state=None, extra_env=None):
    r = vf.tlc("MC_PersistenceMatrix", cfg, workers=1, timeout=tlc_timeout)
    if r.violation:
        return r, None, None, None, None
    g = vf.StateGraph.from_tlc(r.outfile, init_id={"f": [], "h": {"rem": False, "swp": False}})
    ev.add_tlc(part, r, {"graph_states": len(g.obs), "graph_edges": g.nedges, "transitions_by_action": vf.by_action(g), "cfg": cfg})
    work = os.path.join(vf.BUILD, "work", "%s_%s_%d" % (ev.prop, part, os.getpid()))
    rnd = random.Random(vf.seed())
    env = {"VF_P": str(p)}
    if os.environ.get("VF_IDS"):
        env["VF_IDS"] = os.environ["VF_IDS"]
    if extra_env:
        env.update(extra_env)
    summ, devs, crashes, nb = vf.replay(g, binaries, work, env=env, shards=shards, rnd=rnd, walks=walks, walk_len=walk_len,
                                        max_edges_per_state=max_edges_per_state)
    ev.parts[part]["replay"] = {"behaviours_in_cover": nb, "random_walks": walks, "walk_length": walk_len,
                                "configs": len(summ),
                                "behaviours": sum(s["behaviours"] for s in summ.values()),
                                "steps": sum(s["steps"] for s in summ.values()),
                                "skipped_inapplicable": sum(s["skipped"] for s in summ.values())}
    os.remove(r.outfile)
    return r, g, summ, devs, crashes


def crash_as_dev(PROP, c, part):
    """A crash record names the configuration, the group and the step: recover the history from the groups file."""
    import glob, json, os, re
    m = re.match(r"(\S+) g=(\d+) (path|edge) u=(-?\d+) (?:step|k)=(\d+)", c.get("where", ""))
    if not m:
        return {"cfg": c.get("where", "")}
    cfg, g, phase, u, x = m.group(1), int(m.group(2)), m.group(3), int(m.group(4)), int(m.group(5))
    dirs = sorted(glob.glob(os.path.join(vf.BUILD, "work", "%s_%s_%d" % (PROP, part, os.getpid()))))
    if not dirs:
        return {"cfg": cfg}
    with open(os.path.join(dirs[0], "groups.ndjson")) as f:
        for i, line in enumerate(f):
            if i == g:
                grp = json.loads(line)
                ops = [s["act"]["op"] for s in grp["path"]]
                if phase == "path":
                    return {"cfg": cfg, "hist": ops[:x], "act": {"op": ops[x] if x < len(ops) else None}}
                e = [e for e in grp["edges"] if e["k"] == x]
                return {"cfg": cfg, "hist": ops, "act": {"op": e[0]["act"]["op"] if e else None}}
    return {"cfg": cfg}




def trace_part(ev, prop, part, family, binaries, p, vine, nwalks, steps, nmax, matchers=None, fnd=None, extra_env=None):
    """Free-running random histories beyond the bounded model, executed on every configuration of `binaries` with the
    matrices logged, validated by Trace_PersistenceMatrix.tla (barcode, legality of every step, matrix identities are
    all evaluated by TLC).  Returns the list of unknown rejections."""
    import glob
    import json
    import sys
    sys.path.insert(0, os.path.join(vf.ROOT, "lib"))
    import pm_walks
    rnd = random.Random(vf.seed() * 31 + family)
    work = os.path.join(vf.BUILD, "work", "%s_%s_%d" % (prop, part, os.getpid()))
    os.makedirs(work, exist_ok=True)
    gp = os.path.join(work, "groups.ndjson")
    with open(gp, "w") as f:
        for _ in range(nwalks):
            f.write(json.dumps({"u": -1, "path": pm_walks.gen_walk(rnd, p, steps, nmax, vine), "edges": []}) + "\n")
    sp = os.path.join(work, "states.ndjson")
    open(sp, "w").write(json.dumps({"i": 0, "obs": {}}) + "\n")
    cmds = []
    for bi, b in enumerate(binaries):
        cmds.append([b, sp, gp, os.path.join(work, "out_%d.ndjson" % bi)])
    # one environment per binary (different trace files)
    from concurrent.futures import ThreadPoolExecutor
    def one(bi):
        env = {"VF_P": str(p), "VF_IDS": "seq", "VF_LOGMAT": "1", "VF_TRACE_OUT": os.path.join(work, "trace_%d.ndjson" % bi)}
        if extra_env:
            env.update(extra_env)
        vf.run(cmds[bi], env=env, ok_codes=(0, 3), timeout=2400)
    with ThreadPoolExecutor(min(len(cmds), 8)) as ex:
        list(ex.map(one, range(len(cmds))))
    # split per configuration
    files = []
    for tf in sorted(glob.glob(os.path.join(work, "trace_*.ndjson.*"))):
        cur = None
        outs = {}
        for line in open(tf):
            if line.startswith('{"op":"reset"'):
                cur = json.loads(line)["cfg"]
            outs.setdefault(cur, []).append(line)
        for cfg, lines in outs.items():
            fn = os.path.join(work, "cfg_%s_%s.ndjson" % (os.path.basename(tf).split(".")[0], cfg.replace("/", "_")))
            open(fn, "w").write("".join(lines))
            files.append((cfg, fn))
    res = vf.validate_traces("Trace_PersistenceMatrix", "Trace_PersistenceMatrix_p%d.cfg" % p, [f for _, f in files], par=8,
                             extra_java=("-Xss512m",), timeout=2400)
    unknown = []
    nev = 0
    for (cfg, fn), rr in zip(files, res):
        nev += rr["matched"]
        if not rr["accepted"]:
            lines = open(fn).read().splitlines()
            m = rr["matched"]
            hist = []
            for ln in lines[:m]:
                o = json.loads(ln)["op"]
                hist = [] if o == "reset" else hist + [o]
            bad = json.loads(lines[m]) if m < len(lines) else {}
            dev = {"kind": "trace_rejected", "cfg": cfg, "hist": hist, "act": {k: v for k, v in bad.items() if k != "obs"},
                   "file": fn, "line": m + 1, "obs_checks_failed": bad.get("obs", {}).get("checks_failed")}
            if not (fnd and matchers and fnd.match(prop, dev, matchers) is not None):
                unknown.append(dev)
    # a crash of the library during a free-running history ends that configuration: its record is in the replay output
    ncrash = 0
    for bi in range(len(binaries)):
        op = os.path.join(work, "out_%d.ndjson" % bi)
        if not os.path.exists(op):
            continue
        for rec in vf.read_ndjson(op):
            if rec.get("kind") == "crash":
                ncrash += 1
                dev = crash_as_dev(prop, rec, part)
                dev.update({"kind": "crash", "signal": rec.get("signal"), "where": rec.get("where"), "part": part})
                if not (fnd and matchers and fnd.match(prop, dev, matchers) is not None):
                    unknown.append(dev)
    ev.cov["traces_validated_against_impl"] += len(files)
    ev.parts[part] = {"trace_files": len(files), "events_matched": nev, "walks": nwalks, "max_cells": nmax, "p": p, "library_crashes": ncrash,
                      "spec": "Trace_PersistenceMatrix.tla (legality of each step, barcode = Bars(F'), B = boundaries of F', R reduced and "
                              "matching the barcode, U triangular, B = R.U^T / R = B.U, chain columns: leading cells, cycles, boundary of a "
                              "paired column = multiple of its partner - all evaluated by TLC)"}
    return unknown
