"""C11 - the Ripser engine (gudhi/ripser.h) streams the barcode of the Rips flag filtration, whatever the input form
and whichever simplex encoding the dispatcher picks.

"cases" style.  spec -> code: MC_Ripser (TLC) enumerates every symmetric integer dissimilarity on <= 4 points with
entries {1,2,3} and on 5 points with entries {1,2} (+ seeded samples of 6 points x {1,2} and, thorough, 5 points x
{1,2,3}), x thresholds {0 = below the minimum, every value, none} x dim_max 0..n-1 x primes {2,3}; it prints the
diagram RipsPersistence.tla assigns to each (CASE lines) and checks in the model that the two descriptions of that
diagram agree (cliques by definition + simplex tree order + Persistence!AlgReduced  vs  cliques grown from adjacency
lists + another admissible order + strict fold with overflow-free products), that the cell complex is a chain complex,
that classes of dimension <= k only depend on the (k+1)-skeleton, that cutting at the enclosing radius changes nothing
(cone), and on <= 3 (thorough: 4) points that the pairing is the definitional one (explicit cycle / boundary spaces).
harness/ripser_harness cases runs every case through the real engine in ~26 forms x {float, double}: ripser_auto on a
user matrix / Full / lower / upper / converted layouts / sparse edge list (shuffled, threshold argument ignored) /
Euclidean points when the matrix is realisable on a line; the lower-level ripser() the way ripser.cc calls it; help2
with each of the three simplex encodings forced.
code -> spec: harness/ripser_harness record drives the engine with random tie-rich inputs (5-9 points dense, 16 / 64 /
512 vertices sparse with dim_max up to 20 so that each range of the dispatcher is hit, Moore spaces for torsion, primes
up to 65521, 127-131 vertices at the limits of dimension_t) and Trace_Ripser.tla recomputes every diagram."""
import glob
import hashlib
import json
import os
import shutil
import time
from concurrent.futures import ThreadPoolExecutor

import vf

PROP = "C11"
MODULE = "MC_Ripser"
PAR = 4  # shared machine: at most 4 TLC processes / compiles / harness shards at once
XSS = ("-Xss512m",)  # Persistence!ReduceFrom (definitional route) recurses once per cell

# (part, cfg, shards, exhaustive family?)
QUICK_MODELS = [("n<=4_values123", "MC_Ripser_n4_q.cfg", 4, True),
                ("n=5_values12", "MC_Ripser_n5_q.cfg", 4, True),
                ("n=6_values12_sample", "MC_Ripser_n6_q.cfg", 4, False)]
THOROUGH_MODELS = [("n<=4_values123", "MC_Ripser_n4_t.cfg", 4, True),
                   ("n=5_values12", "MC_Ripser_n5_t.cfg", 4, True),
                   ("n=5_values123_sample", "MC_Ripser_n5v3_t.cfg", 4, False),
                   ("n=6_values12_sample", "MC_Ripser_n6_t.cfg", 4, False)]
# the builds: value type, 128-bit integer (gudhi/uint128.h: the compiler's unsigned __int128 or the fallback class)
BUILDS = [dict(name="ripser_harness_f", src="ripser_harness.cpp"),
          dict(name="ripser_harness_d", src="ripser_harness.cpp", defines=("RIPS_VALUE_T=double",)),
          dict(name="ripser_harness_k", src="ripser_harness.cpp", defines=("GUDHI_FORCE_FAKE_UINT128",))]
BUILD_NAMES = ["float", "double", "float+fallback_uint128"]
# recorded traces: build index -> (kind, events, max_simplices)
QUICK_TRACES = {0: [("dense", 200, 300), ("sparse", 200, 300), ("boundary", 12, 300), ("wide", 50, 300), ("deep", 15, 300), ("linkage", 6, 300)],
                1: [("dense", 200, 300), ("sparse", 150, 300), ("wide", 40, 300), ("linkage", 4, 300)],
                2: [("sparse", 100, 300), ("wide", 60, 300), ("deep", 30, 300)]}
THOROUGH_TRACES = {0: [("dense", 1200, 300), ("dense", 250, 700), ("sparse", 1200, 300), ("sparse", 250, 700), ("boundary", 40, 300),
                       ("wide", 300, 300), ("wide", 100, 700), ("deep", 100, 300), ("linkage", 40, 300)],
                   1: [("dense", 1200, 300), ("dense", 250, 700), ("sparse", 1200, 300), ("sparse", 250, 700), ("wide", 300, 300),
                       ("deep", 60, 300)],
                   2: [("dense", 300, 300), ("sparse", 800, 300), ("wide", 400, 300), ("wide", 100, 700), ("deep", 150, 300)]}


# ------------------------------------------------------------------------------------------ known findings
def _only_exceptions(dev, ok):
    ds = dev.get("diffs") or []
    return bool(ds) and all(d.get("path") == "exception" and ok(str(d.get("got"))) for d in ds)


def _is_upper_conversion(dev):
    """Compressed_distance_matrix<., UPPER_TRIANGULAR>(const DistanceMatrix&) on >= 2 points: crash"""
    a = dev.get("act", {})
    return (a.get("form") == "auto_upper_of_lower" and a.get("n", 0) >= 2
            and _only_exceptions(dev, lambda g: g.startswith("crash: signal")))


def _is_dimension_int8(dev):
    """>= 128 vertices and an effective dim_max >= 125: dimension_t = int8_t wraps"""
    a = dev.get("act", {})
    n = a.get("n", 0)
    return (n >= 128 and min(a.get("dmax", 0), n - 2) >= 125
            and _only_exceptions(dev, lambda g: g.startswith("crash: signal") or "length_error" in g))


def _log2up(m):
    m -= 1
    k = 0
    while m > 0:
        m >>= 1
        k += 1
    return k


def _index_beyond_64_bits(a, enc):
    """is there a simplex of the Rips complex (<= dmax + 2 vertices) whose encoded index is >= 2^64"""
    import math
    n, p = a["n"], a["p"]
    lim = 1 << 64
    bpv = _log2up(n)
    nb = {}
    for u, v, w in a["edges"]:
        nb.setdefault(u, set()).add(v)
        nb.setdefault(v, set()).add(u)
    maxv = min(a["dmax"], n - 2) + 2
    budget = [400000]

    def index(s):
        s = sorted(s)
        if enc == "cns128":
            return sum(math.comb(v, i + 1) for i, v in enumerate(s))
        return sum(v << (bpv * i) for i, v in enumerate(s))

    def grow(s, cand):
        if budget[0] <= 0:
            return True   # too many cliques to list: dense graph on high vertex numbers (the 'deep' inputs)
        budget[0] -= 1
        if len(s) >= 2 and index(s) >= lim:
            return True
        if len(s) >= maxv:
            return False
        for i, v in enumerate(cand):
            if grow(s + [v], [u for u in cand[i + 1:] if u in nb[v]]):
                return True
        return False
    return grow([], sorted(nb))


def _is_fallback_mask(dev):
    """fallback 128-bit integer class + odd prime + 128-bit encoding + an index beyond 64 bits: crash or wrong barcode"""
    a = dev.get("act", {})
    enc = (dev.get("run") or {}).get("enc") or a.get("enc")
    ds = dev.get("diffs") or []
    return ("fallback_uint128" in str(dev.get("cfg")) and a.get("p", 2) != 2 and enc in ("bf128", "cns128") and bool(ds)
            and all(d.get("path") in ("diagram", "negative_interval", "forms_disagree")
                    or (d.get("path") == "exception" and str(d.get("got")).startswith("crash: signal")) for d in ds)
            and _index_beyond_64_bits(a, enc))


MATCHERS = {"C11-upper-layout-converting-constructor": _is_upper_conversion,
            "C11-dimension-type-int8-overflow": _is_dimension_int8,
            "C11-fallback-uint128-coefficient-mask": _is_fallback_mask}


# ------------------------------------------------------------------------------------------ TLC runs
class Agg:
    def __init__(self):
        self.distinct = self.generated = self.depth = 0
        self.wall = 0.0
        self.coverage = {}
        self.outfiles = []


def run_models(models, timeout, pool):
    jobs = [(part, cfg, s, n) for part, cfg, n, _ in models for s in range(n)]

    def one(j):
        part, cfg, s, n = j
        return j, vf.tlc(MODULE, cfg, workers=1, timeout=timeout, heap="3g", extra_java=XSS,
                         env={"SHARD": str(s), "NSHARDS": str(n), "SEEDV": str(vf.seed() % 100003)},
                         tag="rips-%s-%d-%d" % (part.replace("<=", "le").replace("=", ""), s, os.getpid()))
    res = {}
    for (part, cfg, s, n), r in pool.map(one, jobs):
        if r.violation or not r.ok:
            # an in-model theorem failed: no code is involved, the specification is broken
            raise vf.Infra("in-model theorem violated in %s/%s shard %d:\n%s" % (MODULE, cfg, s, (r.violation or r.text)[-3000:]))
        a = res.setdefault(part, Agg())
        a.distinct += r.distinct
        a.generated += r.generated
        a.depth = max(a.depth, r.depth)
        a.wall = max(a.wall, r.wall)
        a.outfiles.append(r.outfile)
    return res


def validate(path, tag, timeout):
    """Trace_Ripser judges every line on its own: REJECT lines name the runs / clauses that do not conform."""
    r = vf.tlc("Trace_Ripser", "Trace_Ripser.cfg", workers=1, env={"TRACE": path}, timeout=timeout, tag=tag,
               allow_violation=True, heap="3g", extra_java=XSS)
    info, rejects = None, []
    for t, o in vf.emits(r.outfile, ("TRACE", "REJECT")):
        if t == "TRACE":
            info = o
        else:
            rejects.append(o)
    if info is None or not info["accepted"] or r.violation:
        raise vf.Infra("trace spec Trace_Ripser did not read %s to the end:\n%s" % (path, r.text[-3000:]))
    info.update(file=path, generated=r.generated, wall=r.wall, rejects=rejects)
    return info


def cleanup_ttrace():
    for p in glob.glob(os.path.join(vf.SPECS, "*Ripser*_TTrace_*")):
        try:
            os.remove(p)
        except OSError:
            pass


def nontrivial_sub(s):
    """a sub-case whose diagram has a finite interval or a class of positive dimension"""
    return any(b["d"] != 1000000 or b["dim"] > 0 for b in s["diag_set"])


# ------------------------------------------------------------------------------------------ main
def main(tier):
    ev = vf.Evidence(PROP, tier)
    fnd = vf.Findings()
    work = os.path.join(vf.BUILD, "rips", "%s-%d" % (tier, os.getpid()))
    os.makedirs(work, exist_ok=True)
    models = QUICK_MODELS if tier == "quick" else THOROUGH_MODELS
    unknown = []
    tags = []
    t00 = time.time()
    try:
        with ThreadPoolExecutor(2) as bex, ThreadPoolExecutor(PAR) as pool:
            fb = bex.submit(vf.build_many, BUILDS, 3)
            results = run_models(models, 900 if tier == "quick" else 1150, pool)
            vf.log("[c11] models done %.0fs" % (time.time() - t00))
            bins = fb.result()
            vf.log("[c11] builds done %.0fs" % (time.time() - t00))

        # ---- the bounded model: every case on the real code
        cases_path = os.path.join(work, "cases.ndjson")
        ncases = nsub = nontriv = 0
        with open(cases_path, "w") as f:
            for part, cfg, nsh, exh in models:
                a = results[part]
                n = ns = nt = 0
                for of in a.outfiles:
                    for tag, o in vf.emits(of, ("CASE",)):
                        n += 1
                        ns += len(o["sub_set"])
                        k = sum(1 for s in o["sub_set"] if nontrivial_sub(s))
                        nt += k
                        if n in (7, 301) and k:
                            s = [x for x in o["sub_set"] if nontrivial_sub(x)][-1]
                            ev.sample({"part": part, "n": o["n"], "e_set": o["e_set"], "sub_case": s}, 4)
                        f.write(json.dumps(o, separators=(",", ":")) + "\n")
                if n == 0 or n != a.distinct:
                    raise vf.Infra("model %s: %d cases emitted for %d states" % (cfg, n, a.distinct))
                ev.add_tlc(part, a, {"matrices": n, "sub_cases": ns, "with_nontrivial_diagram": nt, "tlc_processes": nsh,
                                     "whole_family": exh})
                ncases += n
                nsub += ns
                nontriv += nt
        runs = [(b, i) for b in bins for i in range(PAR)]
        outs = [os.path.join(work, "cases_out_%d_%d.ndjson" % (k, i)) for k, (b, i) in enumerate(runs)]
        vf.run_parallel([[b, "cases", cases_path, outs[k], str(i), str(PAR)] for k, (b, i) in enumerate(runs)], par=PAR,
                        timeout=700, ok_codes=(0, 3))
        vf.log("[c11] cases replayed %.0fs" % (time.time() - t00))
        summ = {"cases": 0, "subcases": 0, "evaluations": 0, "deviations": 0, "deviations_dropped": 0,
                "skipped_after_repeated_crash": 0, "pairs_reported": 0, "zero_length_pairs_reported": 0}
        forms, encs = {}, {}
        nsumm = 0
        for o in outs:
            for rec in vf.read_ndjson(o):
                k = rec.get("kind")
                if k == "summary":
                    nsumm += 1
                    for key in summ:
                        summ[key] += rec[key]
                    for a, b in rec["forms"].items():
                        forms[a] = forms.get(a, 0) + b
                    for a, b in rec["encodings"].items():
                        encs[a] = encs.get(a, 0) + b
                elif k == "deviation":
                    if fnd.match(PROP, rec, MATCHERS) is None:
                        unknown.append(rec)
                elif k == "crash":
                    unknown.append(rec)
        if summ["deviations_dropped"]:
            unknown.append({"kind": "deviations_not_examined", "count": summ["deviations_dropped"]})
        if nsumm != len(runs) and not unknown:
            raise vf.Infra("ripser_harness cases: %d of %d shards finished" % (nsumm, len(runs)))
        if summ["cases"] != len(bins) * ncases and not unknown:
            raise vf.Infra("ripser_harness cases ran %d of %d cases" % (summ["cases"], len(bins) * ncases))
        ev.parts["replay"] = dict(summ, builds=BUILD_NAMES, forms=forms, simplex_encodings=encs)
        if unknown:   # the engine already deviates on the bounded model: report now, do not drive it with larger inputs
            ev.cov["evaluations"] = summ["evaluations"]
            ev.cov["distinct_nontrivial"] = nontriv
            ev.cov["rule"] = "stopped after the replay of the bounded model: unknown deviations"
            fnd.report(PROP)
            ev.violations = len(unknown)
            p = vf.save_replay(PROP, "deviations", unknown[:50])
            ev.write()
            vf.violation(PROP, p)
            return 1

        # ---- recorded executions validated by the trace specification
        tdir = os.path.join(work, "traces")
        os.makedirs(tdir, exist_ok=True)
        specs = QUICK_TRACES if tier == "quick" else THOROUGH_TRACES
        jobs = []
        for bi, b in enumerate(bins):
            for ki, (kind, nev, lim) in enumerate(specs[bi]):
                p = os.path.join(tdir, "t_%s_%s_%d.ndjson" % ("fdk"[bi], kind, ki))
                jobs.append((p, [b, "record", p, str(vf.seed() * 1000 + 17 * bi + ki), str(nev), kind, str(lim)]))
        recs = vf.run_parallel([c for _, c in jobs], par=PAR, timeout=600, ok_codes=(0, 3))
        for (p, c), r in zip(jobs, recs):
            if r.returncode == 3:
                unknown.append({"kind": "crash", "where": "ripser_harness record", "file": p,
                                "last": (open(p).read().splitlines() or [""])[-1][:1500]})
        vf.log("[c11] traces recorded %.0fs" % (time.time() - t00))
        good = [(i, p) for i, ((p, c), r) in enumerate(zip(jobs, recs)) if r.returncode == 0]
        tags = ["rips-trace-%d-%d" % (i, os.getpid()) for i, _ in good]
        with ThreadPoolExecutor(PAR) as ex:
            infos = list(ex.map(lambda ip: validate(ip[1], "rips-trace-%d-%d" % (ip[0], os.getpid()), 1100), good))
        vf.log("[c11] traces validated %.0fs" % (time.time() - t00))
        nevents = nruns = 0
        ev_hash = set()
        accepted_files = 0
        enc_runs = {}      # simplex encoding -> runs (dispatcher's choice vs forced)
        per_n = {}
        no_oracle = 0
        for info in infos:
            lines = open(info["file"]).read().splitlines()
            events = [json.loads(x) for x in lines]
            nevents += info["matched"]
            ev.cov["transitions"] += info["generated"]
            bad = 0
            for rj in info["rejects"]:
                e = events[rj["line"] - 1]
                byform = {}
                for fl in rj["fails"]:
                    form, _, clause = fl.partition(":")
                    byform.setdefault(form if clause else "", []).append(clause or form)
                for form, clauses in byform.items():
                    run = next((r for r in e.get("runs", []) if r.get("form") == form), {})
                    act = {k: e[k] for k in ("n", "edges", "dense", "t", "dmax", "p", "points") if k in e}
                    act["form"] = form
                    act["enc"] = run.get("enc") or next((r.get("enc") for r in e.get("runs", []) if not r.get("form", "").startswith("enc_")), None)
                    dev = {"kind": "trace_rejected", "op": "ripser", "cfg": "%s:%s" % (e.get("value"), form), "file": info["file"],
                           "line": rj["line"], "act": act,
                           "diffs": [{"path": c, "exp": None, "got": run.get("exception") if c == "exception" else None} for c in clauses],
                           "run": run}
                    if fnd.match(PROP, dev, MATCHERS) is None:
                        unknown.append(dev)
                        bad += 1
            accepted_files += 1 if bad == 0 else 0
            for k, (line, e) in enumerate(zip(lines, events)):
                ev_hash.add(hashlib.md5(json.dumps({x: e[x] for x in ("n", "edges", "dense", "t", "dmax", "p")}, sort_keys=True).encode()).digest())
                key = "dense" if e["dense"] else "sparse_%d" % e["n"]
                no_oracle += 0 if e.get("oracle", True) else 1
                per_n[key] = per_n.get(key, 0) + 1
                for r in e["runs"]:
                    nruns += 1
                    how = "forced" if r["form"].startswith("enc_") else "dispatcher"
                    d = enc_runs.setdefault(r["enc"], {"dispatcher": 0, "forced": 0})
                    d[how] += 1
                if k in (3, 11) and info is infos[0]:
                    e2 = dict(e)
                    e2["runs"] = e["runs"][:2]
                    ev.sample({"part": "trace", "event": e2}, 6)
        ev.cov["traces_validated_against_impl"] = accepted_files
        ev.parts["traces"] = {"files": len(infos), "events": nevents, "distinct_inputs": len(ev_hash), "runs": nruns,
                              "events_rejected": sum(len(i["rejects"]) for i in infos), "inputs_by_kind": per_n,
                              "events_without_oracle_forms_must_agree": no_oracle,
                              "runs_by_simplex_encoding": enc_runs,
                              "note": "the encoding of a dispatcher run is derived from help1's formula bits_per_vertex*(dim_max+2)+bits(p-1) "
                                      "(harness) and re-derived by Trace_Ripser.tla (clause encoding_formula)"}

        ev.cov["evaluations"] = summ["evaluations"] + nruns
        ev.cov["distinct_nontrivial"] = nontriv + len(ev_hash)
        ev.cov["exhaustive"] = True
        ev.cov["rule"] = ("every symmetric matrix of the families listed in parts (whole_family = true: all of them; otherwise a seeded "
                          "fraction) x thresholds {0, each value, none} x dim_max 0..n-1 x primes {2,3}; expected diagram computed by TLC "
                          "from RipsPersistence.tla (two routes proved equal in the model on the stated fraction), each sub-case run on the "
                          "real engine in every applicable form x {float,double}; plus recorded random runs judged line by line by "
                          "Trace_Ripser.tla. distinct = sub-cases whose diagram has a finite interval or a class of positive dimension + "
                          "distinct recorded inputs")
        ev.assumptions = [
            "inputs are symmetric, zero on the diagonal, finite non-negative integers (exact in float and double); point clouds only "
            "when every pairwise distance is an integer (points of a line embedded in R, R^2, R^3; corners of a 3x4 rectangle)",
            "the engine may report intervals with birth = death (non-apparent zero-persistence pairs): its callers drop them "
            "(_ripser.cc 'Skip empty intervals', ripser.cc --ratio), so does the comparison (counted); birth > death is a deviation",
            "sparse form: the edge list is the truncated graph (each edge once, no loop), the threshold argument is ignored "
            "(documented in sklearn/rips_persistence.py); without threshold the dense forms cut at the enclosing radius, the sparse "
            "form gets either that graph or all edges (same diagram: theorem ThCone checked in the model)",
            "the order of the intervals inside a dimension is not documented: bags are compared; output_dim is expected for "
            "0..max(0, min(dim_max, n-2)) in increasing order ('dgm stops at n-2')",
            "help2<Params, Encoding> (the function behind every entry point) is called directly to force each simplex encoding on "
            "every input it can hold; the dispatcher's own choice is exercised by the sparse traces (16 / 64 / 512 vertices)",
            "moduli: primes p with p - 1 < 2^16 (documented limit); non-prime moduli (documented exception) are not exercised",
        ]
        fnd.report(PROP)
        if unknown:
            ev.violations = len(unknown)
            p = vf.save_replay(PROP, "deviations", unknown[:50])
            ev.write()
            vf.violation(PROP, p)
            return 1
        ev.write()
        shutil.rmtree(work, ignore_errors=True)
        for part, cfg, nsh, _ in models:
            for s in range(nsh):
                shutil.rmtree(os.path.join(vf.BUILD, "tlc", "rips-%s-%d-%d" % (part.replace("<=", "le").replace("=", ""), s, os.getpid())),
                              ignore_errors=True)
        for t in tags:
            shutil.rmtree(os.path.join(vf.BUILD, "tlc", t), ignore_errors=True)
        return 0
    finally:
        cleanup_ttrace()
