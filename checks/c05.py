"""C05 - every persistence-matrix flavour computes the same, correct barcode (insertions and remove_last)."""
import vf
from checks import pm_common

PROP = "C05"
MATCHERS = {}


def main(tier):
    ev = vf.Evidence(PROP, tier)
    fnd = vf.Findings()
    # in-model theorem: definitional persistence = column reduction (Persistence.tla)
    for cfg in (["MC_Persistence_z2.cfg", "MC_Persistence_z3.cfg"] if tier == "quick" else
                ["MC_Persistence_z2.cfg", "MC_Persistence_z3.cfg", "MC_Persistence_z2_t.cfg"]):
        r = vf.tlc("MC_Persistence", cfg, workers=8, timeout=1500)
        if r.violation:
            p = vf.save_replay(PROP, "theorem_" + cfg, {"tlc": r.violation})
            vf.violation(PROP, p)
            ev.violations += 1
            ev.write()
            return 1
        ev.add_tlc("theorem_def_eq_alg_" + cfg.replace(".cfg", ""), r)
    cols = pm_common.pick_cols(tier)
    bins, jobs = pm_common.build(0, cols)
    z2bins = [b for b, j in zip(bins, jobs) if "VF_Z2=1" in j["defines"]]
    zpbins = [b for b, j in zip(bins, jobs) if "VF_Z2=0" in j["defines"]]
    unknown = []
    total = 0
    plan = [("z2", "MC_PersistenceMatrix_z2.cfg" if tier == "quick" else "MC_PersistenceMatrix_z2_t.cfg", z2bins, 2),
            ("z3", "MC_PersistenceMatrix_z3.cfg", zpbins, 3),
            ("z5", "MC_PersistenceMatrix_z5.cfg", zpbins, 5)]
    for part, cfg, bs, p in plan:
        r, g, summ, devs, crashes = pm_common.run_model(ev, part, cfg, bs, p, walks=300 if tier == "quick" else 3000,
                                                        walk_len=14)
        if r.violation:
            pth = vf.save_replay(PROP, part + "_model", {"tlc": r.violation})
            vf.violation(PROP, pth)
            ev.violations += 1
            ev.write()
            return 1
        for c in crashes:
            unknown.append({"part": part, **c})
        for d in devs:
            if fnd.match(PROP, d, MATCHERS) is None:
                unknown.append({"part": part, **d})
        total += ev.parts[part]["replay"]["behaviours"]
        k = next((e for e in g.out[g.init]), None)
        ev.sample({"part": part, "edge": {"act": k[0], "to_obs": g.obs[k[1]]}}, 3)
    # code -> spec: free-running histories on up to 14 cells with the matrices logged, identities evaluated by TLC
    nw = 12 if tier == "quick" else 80
    for part, bs, p in (("traces_z2", z2bins, 2), ("traces_z3", zpbins, 3)):
        unknown += pm_common.trace_part(ev, PROP, part, 0, bs, p, False, nw, 30, 14, MATCHERS, fnd)
        total += ev.parts[part]["events_matched"]
    ev.cov["evaluations"] = total
    ev.cov["distinct_nontrivial"] = ev.cov["states"]
    ev.cov["exhaustive"] = True
    ev.cov["rule"] = ("every filtered cell complex (general cells, any cycle of earlier cells is a boundary) with <= N cells over "
                      "Z2 / Z3 / Z5 enumerated by TLC; every insert/remove_last transition and random walks replayed on each "
                      "Matrix instantiation (column types %s x flavours R-only/RU/chain x indexing x row access); barcode "
                      "compared with Persistence.tla, exposed matrices checked against their defining identities"
                      % [pm_common.COLS[c] for c in cols])
    ev.assumptions = ["bounded: <= 5/6 cells over Z2, <= 4 over Z3/Z5 (quick)", "identities evaluated by the harness on the real columns"]
    fnd.report(PROP)
    if unknown:
        ev.violations = len(unknown)
        pth = vf.save_replay(PROP, "deviations", unknown[:60])
        ev.write()
        vf.violation(PROP, pth)
        return 1
    ev.write()
    return 0
