"""C01 - Simplex tree equals the abstract complex defined by its operation history."""
import json
import vf
from checks import st_common

PROP = "C01"


def classify(dev):
    """known-finding matchers for C01 (see known_findings.json)"""
    return None


def main(tier):
    ev = vf.Evidence(PROP, tier)
    fnd = vf.Findings()
    bins = st_common.build_replay()
    parts = [("bfs_v3_vals3", "MC_SimplexTree_q3.cfg", 3, 2, None, None),
             ("bfs_v4_val1", "MC_SimplexTree_q4.cfg", 4, 3, None, None)]
    unknown = []
    total_beh = 0
    for part, cfg, nv, maxdim, sim, depth in parts:
        r, g, summ, devs, crashes = st_common.run_model(ev, part, cfg, bins, nv, maxdim, simulate=sim, depth=depth,
                                                        gap_edges_per_state=12 if tier == "quick" else None,
                                                        # every operation is also run on two copies holding a live, valid
                                                        # filtration cache (all simplices / ignoring infinite values)
                                                        extra_env={"VF_LIVE_CACHE": "1"} if part == "bfs_v3_vals3" else None)
        if r.violation:
            p = vf.save_replay(PROP, part + "_model", {"tlc": r.violation})
            vf.violation(PROP, p)
            ev.violations += 1
            ev.write()
            return 1
        for c in crashes:
            unknown.append({"kind": "crash", "part": part, **c})
        for d in devs:
            fid = fnd.match(PROP, d, MATCHERS)
            if fid is None:
                unknown.append({"part": part, **d})
        total_beh += sum(s["behaviours"] for s in summ.values())
        ev.sample({"part": part, "example_edge": {"act": g.out[g.init][0][0], "to_state_obs": g.obs[g.out[g.init][0][1]]}}, 2)
    rejected, files = st_common.record_and_validate(ev, "traces_v6", 60 if tier == "quick" else 400, 80)
    for rj in rejected:
        unknown.append(rj)
    ev.cov["evaluations"] = total_beh
    ev.cov["distinct_nontrivial"] = ev.cov["states"]
    ev.cov["exhaustive"] = True
    ev.cov["rule"] = ("every transition of the bounded SimplexTree.tla state graphs (BFS, complete) replayed as a behaviour "
                      "init ~> u -> v on a fresh Simplex_tree under every option set x label map; whole projected state and "
                      "all derived queries compared after every step; distinct = distinct abstract states")
    ev.assumptions = ["TLC bounded model: 3 vertices x values {0,1,2}, 4 vertices x value {0}",
                      "histories respect documented preconditions (guards of SimplexTree.tla)"]
    fnd.report(PROP)
    if unknown:
        ev.violations = len(unknown)
        p = vf.save_replay(PROP, "deviations", unknown[:50])
        ev.write()
        vf.violation(PROP, p)
        return 1
    ev.write()
    return 0


MATCHERS = {}
