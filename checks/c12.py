"""C12 - flag_complex_collapse_edges returns a subgraph of the input with values not smaller, whose flag filtration
has the persistence diagram of the input's in every dimension (Flag_complex_edge_collapser.h).

spec -> code ("cases"): MC_EdgeCollapse (TLC) enumerates every weighted graph on 4 vertices with weights {1,2,3}
(thorough {1,2,3,4}), every graph on 5 vertices with one weight (all ties) and a seeded sample on 5 and 6 vertices, and
checks on each the theorems the oracle rests on (cliques, chain complex, strict reduction = Persistence.tla reduction,
diagram = definitional sublevel Betti numbers, and THE STEP OF THE ALGORITHM: delaying / removing an edge over a span in
which it is dominated changes no sublevel homology and no diagram).  harness/collapse_run runs the real function on
every case in four builds (+-GUDHI_COLLAPSE_USE_DENSE_ARRAY, +-GUDHI_USE_TBB) and four presentations (order as given,
shuffled order + orientation, transformed range of long/double, non-contiguous shuffled labels + affine values with
short/float in a list) and records input + output.
code -> spec: the same binaries on seeded tie-rich graphs on 7-9 (thorough: up to 11) vertices and on sparse graphs with
more than 500 edges (tbb::parallel_sort beyond its serial cut-off).  Trace_EdgeCollapse.tla (TLC) evaluates the
predicate CollapseOK on every distinct recorded (input, output) pair: the output is legitimately non-unique, so nothing
is compared with a computed output.  Negative controls (corrupted copies of recorded lines) must be rejected."""
import json
import os
import shutil
from concurrent.futures import ThreadPoolExecutor

import vf

PROP = "C12"
PAR = 4        # shared machine: at most 4 TLC workers / processes / compiles at once
XSS = ("-Xss512m",)
BUILDS = [("sparse_std", []), ("dense_std", ["GUDHI_COLLAPSE_USE_DENSE_ARRAY"]),
          ("sparse_tbb", ["GUDHI_USE_TBB"]), ("dense_tbb", ["GUDHI_COLLAPSE_USE_DENSE_ARRAY", "GUDHI_USE_TBB"])]
# (part, cfg, sample count (0 = every graph of the bound))
MODELS = {
    # quick: on 4 vertices x {1,2,3} the theorems by the reduction only; the definitional ones (explicit chain sets) on
    # 4 vertices x {1,2}, on every 5-vertex graph with equal weights and on the 5-vertex sample
    "quick": [("all_4v_w123", "MC_EdgeCollapse_w4q.cfg", 0), ("all_4v_w12_definitional", "MC_EdgeCollapse_w4d.cfg", 0),
              ("all_5v_one_weight", "MC_EdgeCollapse_u5.cfg", 0),
              ("sample_5v_w123", "MC_EdgeCollapse_s5.cfg", 20), ("sample_6v_w123", "MC_EdgeCollapse_s6.cfg", 100)],
    "thorough": [("all_4v_w1234", "MC_EdgeCollapse_w4t.cfg", 0), ("all_5v_one_weight", "MC_EdgeCollapse_u5.cfg", 0),
                 ("sample_5v_w123", "MC_EdgeCollapse_s5.cfg", 400), ("sample_6v_w123", "MC_EdgeCollapse_s6.cfg", 4000)],
}
RANDOM = {"quick": (200, 0, 4), "thorough": (4000, 1500, 12)}   # random 7-9 vertices, random "big", sparse
NARROW = ("ushort", "uchar")


def narrow_unsigned_vertex(dev):
    """Vertex type unsigned and narrower than int: `dominator == -1` is never true after promotion, an edge without
    dominator is taken for dominated for ever and dropped.  Keyed on: every run that produced this (input, output) pair used
    such a vertex type, the output only lacks edges (no foreign edge, no changed value) and the diagrams differ."""
    ce = lambda q: set((min(a, b), max(a, b), f) for a, b, f in q)
    return (dev.get("kind") == "promise_broken" and dev.get("why") == "persistence diagrams differ"
            and dev["variants"] and all(v in NARROW for v in dev["variants"]) and ce(dev["out"]) < ce(dev["in"]))


MATCHERS = {"C12-unsigned-narrow-vertex": narrow_unsigned_vertex}


def key_of(o):
    ce = lambda q: tuple(sorted((min(a, b), max(a, b), f) for a, b, f in q))
    return ce(o["in"]), ce(o["out"])


def negative_controls(recs):
    """Corrupted copies of recorded lines + a hand-made one; every one of them breaks the promise."""
    neg = [{"op": "collapse", "id": "neg/cycle-loses-edge", "primes": [2],
            "in": [[0, 1, 1], [1, 2, 1], [2, 3, 1], [0, 3, 1]], "out": [[0, 1, 1], [1, 2, 1], [2, 3, 1]]}]
    src = [r for r in recs if len(r["out"]) >= 2][:3]
    for i, r in enumerate(src):
        o = [list(e) for e in r["out"]]
        if i == 0:      # a value below the input value
            o[0][2] = min(e[2] for e in r["in"]) - 1
            why = "value-lowered"
        elif i == 1:    # an edge twice
            o.append([o[0][1], o[0][0], o[0][2]])
            why = "edge-twice"
        else:           # an edge that is not in the input
            o.append([max(max(e[0], e[1]) for e in r["in"]) + 1, o[0][0], o[0][2]])
            why = "foreign-edge"
        neg.append({"op": "collapse", "id": "neg/" + why, "primes": [2], "in": r["in"], "out": o})
    return neg


def run_trace(path, tag, timeout):
    r = vf.tlc("Trace_EdgeCollapse", "Trace_EdgeCollapse.cfg", workers=1, env={"TRACE": path}, timeout=timeout, tag=tag,
               allow_violation=True, heap="4g", extra_java=XSS)
    info, rej = None, []
    for t, o in vf.emits(r.outfile, ("TRACE", "REJECT")):
        if t == "TRACE":
            info = o
        else:
            rej.append(o)
    if info is None:
        raise vf.Infra("Trace_EdgeCollapse printed no verdict for %s:\n%s" % (path, r.text[-3000:]))
    if info["matched"] != info["len"] or info["rejected"] != len(rej):
        raise vf.Infra("Trace_EdgeCollapse stopped early on %s: %s\n%s" % (path, info, r.text[-3000:]))
    info["wall"] = r.wall
    return info, rej


def main(tier):
    ev = vf.Evidence(PROP, tier)
    fnd = vf.Findings()
    unknown = []
    seed = vf.seed()
    work = os.path.join(vf.BUILD, "work", "%s_%d" % (PROP, os.getpid()))
    shutil.rmtree(work, ignore_errors=True)
    os.makedirs(work, exist_ok=True)
    # the four builds compile (2 at a time) while TLC checks the first model
    bex = ThreadPoolExecutor(1)
    bfut = bex.submit(vf.build_many, [dict(name="collapse_run_" + n, src="collapse_run.cpp", defines=d) for n, d in BUILDS], 2)

    # ---- bounded model: theorems + cases
    cases_path = os.path.join(work, "cases.ndjson")
    ncases, ndelays = 0, 0
    with open(cases_path, "w") as f:
        for part, cfg, count in MODELS[tier]:
            r = vf.tlc("MC_EdgeCollapse", cfg, workers=PAR, timeout=1500, extra_java=XSS,
                       env={"COLLAPSE_SEED": str(seed), "COLLAPSE_COUNT": str(count)})
            if r.violation:
                p = vf.save_replay(PROP, "theorem_" + part, {"model": cfg, "tlc": r.violation})
                vf.violation(PROP, p)
                ev.violations += 1
                ev.write()
                return 1
            n = 0
            for _, o in vf.emits(r.outfile, ("CASE",)):
                o["id"] = "%s.%d" % (part, n)
                f.write(json.dumps(o, separators=(",", ":")) + "\n")
                ndelays += o["delays"]
                n += 1
            os.remove(r.outfile)
            ev.add_tlc(part, r, {"cases": n, "exhaustive_in_bound": count == 0})
            ncases += n

    bins = bfut.result()
    bex.shutdown()

    # ---- the real code: four builds on the cases, on random graphs and on sparse graphs
    nrand, nbig, nsparse = RANDOM[tier]
    cmds, outs = [], []
    for (bname, _), b in zip(BUILDS, bins):
        jobs = [("cases", cases_path, []), ("random", str(nrand), []), ("sparse", str(nsparse), [])]
        if nbig:
            jobs.append(("random", str(nbig), ["big"]))
        for mode, arg, extra in jobs:
            o = os.path.join(work, "rec_%s_%s%s.ndjson" % (bname, mode, "_big" if extra else ""))
            outs.append(o)
            cmds.append([b, mode, arg, o, str(seed + (7919 if extra else 0)), bname] + extra)
    vf.run_parallel(cmds, par=PAR, ok_codes=(0, 3))
    distinct, calls = {}, 0
    for o in outs:
        summary = False
        with open(o) as f:
            for line in f:
                rec = json.loads(line)
                k = rec.get("kind")
                if k == "summary":
                    summary = True
                    continue
                if k == "crash":
                    unknown.append(rec)
                    continue
                calls += 1
                kk = key_of(rec)
                d = distinct.get(kk)
                if d is None:
                    small = rec["id"][0] not in "RS"
                    d = {"op": "collapse", "id": rec["id"], "primes": [2] if rec["id"][0] == "S" else [2, 3],
                         "in": rec["in"], "out": rec["out"], "runs": [], "nruns": 0, "small": small, "variants": set()}
                    distinct[kk] = d
                d["nruns"] += 1
                d["variants"].add(rec["id"].rsplit("/", 1)[1])
                if len(d["runs"]) < 6:
                    d["runs"].append(rec["build"] + ":" + rec["id"])
        if not summary and not any(u.get("kind") == "crash" for u in unknown):
            raise vf.Infra("harness output %s is incomplete" % o)
    recs = list(distinct.values())
    nontrivial = sum(1 for kk in distinct if kk[0] != kk[1])
    neg = negative_controls(recs)

    # ---- TLC judges every distinct (input, output) pair
    recs.sort(key=lambda r: -len(r["in"]))     # spread the expensive lines over the shards
    shards = [recs[i::PAR] for i in range(PAR)]
    shards[0] = neg + shards[0]
    paths = []
    for i, sh in enumerate(shards):
        p = os.path.join(work, "trace_%d.ndjson" % i)
        with open(p, "w") as f:
            for r in sh:
                f.write(json.dumps({k: r[k] for k in ("op", "id", "primes", "in", "out")}, separators=(",", ":")) + "\n")
        paths.append(p)
    with ThreadPoolExecutor(PAR) as ex:
        res = list(ex.map(lambda a: run_trace(a[1], "Trace_EdgeCollapse-%d-%d" % (os.getpid(), a[0]), 2400), enumerate(paths)))
    matched, wall = 0, 0.0
    neg_rejected = set()
    for i, (info, rej) in enumerate(res):
        matched += info["matched"]
        wall = max(wall, info["wall"])
        for rj in rej:
            r = shards[i][rj["line"] - 1]
            if str(r["id"]).startswith("neg/"):
                neg_rejected.add(r["id"])
                continue
            dev = {"kind": "promise_broken", "why": rj["verdict"].get("why"), "id": r["id"], "runs": r["runs"], "nruns": r["nruns"], "variants": sorted(r["variants"]),
                   "in": r["in"], "out": r["out"], "verdict": rj["verdict"]}
            if fnd.match(PROP, dev, MATCHERS) is None:
                unknown.append(dev)
    missing = [n["id"] for n in neg if n["id"] not in neg_rejected]
    if missing:
        raise vf.Infra("negative controls accepted by Trace_EdgeCollapse (oracle blind): %s" % missing)

    ev.cov["traces_validated_against_impl"] = len(paths)
    ev.parts["conformance"] = {
        "real_calls_recorded": calls, "distinct_input_output_pairs_judged_by_tlc": len(recs),
        "of_which_something_collapsed": nontrivial, "negative_controls_rejected": len(neg_rejected),
        "builds": [b for b, _ in BUILDS], "presentations": ["plain", "shuffled", "transformed", "uint", "relabel", "ushort (equal weights)", "uchar (equal weights)"],
        "inputs": {"cases_from_model": ncases, "random_7_9_vertices": nrand, "random_9_11_vertices": nbig,
                   "sparse_over_500_edges": nsparse},
        "largest_input_edges": max(len(r["in"]) for r in recs), "trace_wall_s": round(wall, 1), "spec": "Trace_EdgeCollapse.tla"}
    for r in recs[:1] + [r for r in recs if r["small"] and r["in"] != r["out"]][:2] + [r for r in recs if r["id"][0] == "R"][:1]:
        ev.sample({"id": r["id"], "in": r["in"][:40], "out": r["out"][:40], "runs": r["nruns"]})
    ev.cov["evaluations"] = calls + ndelays
    ev.cov["distinct_nontrivial"] = nontrivial
    ev.cov["exhaustive"] = True
    ev.cov["rule"] = ("model: every weighted graph on 4 vertices x weights {1,2,3} (thorough {1,2,3,4}), every graph on 5 vertices with "
                      "equal weights, seeded samples on 5 and 6 vertices x {1,2,3}; on each the theorems (iterative cliques = cliques, "
                      "chain complex, reduction, diagram = definitional sublevel Betti numbers over Z2, every legal delay/removal of "
                      "a dominated edge preserves all sublevel Betti numbers and the diagrams over Z2 and Z3; %d legal delays). "
                      "conformance: each case + seeded tie-rich graphs on 7-9 (thorough 9-11) vertices + sparse graphs with > 500 "
                      "edges run through flag_complex_collapse_edges in 4 builds x 3-4 presentations; TLC evaluates CollapseOK "
                      "(subgraph, values not smaller, equal diagrams in every dimension over Z2 [and Z3 below 12 vertices]) on "
                      "every distinct (input, output) pair" % ndelays)
    ev.assumptions = ["diagram oracle = column reduction of Persistence.tla (proved equal to the definitional pairing in MC_Persistence, "
                      "and to definitional sublevel Betti numbers here) on the flag filtration with every vertex at -infinity",
                      "inputs are simple graphs (no loop, no repeated pair), values small integers (exact in float/double)",
                      "the undocumented two-argument overload (delay functor) is not exercised",
                      "bounded: model <= 6 vertices; recorded inputs <= 11 vertices dense, <= ~400 vertices sparse"]
    fnd.report(PROP)
    if unknown:
        ev.violations = len(unknown)
        p = vf.save_replay(PROP, "deviations", unknown[:40])
        ev.write()
        vf.violation(PROP, p)
        return 1
    ev.write()
    shutil.rmtree(work, ignore_errors=True)
    return 0
