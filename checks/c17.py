"""C17 - Skeleton-blocker complexes track the abstract complex through edits and contractions.

 1. TLC BFS of MC_SkeletonBlocker on 4 vertex handles (all closed complexes, all histories of the bounded
    model) with the in-model theorems as invariants; every transition replayed on real complexes
    (abstract + geometric instantiation, compiled with and without assertions), whole projected state compared.
 2. thorough: the in-model theorems on 5 handles (4 workers, no replay) and a seeded simulation on 5 handles
    whose generated transitions are replayed the same way.
 3. random recorded executions on 6 handles validated by Trace_SkeletonBlocker.tla, including the Betti numbers
    and the Euler characteristic of the logged complexes across contractions that satisfy the link condition.
"""
import glob
import json
import os
import random
import shutil
from concurrent.futures import ThreadPoolExecutor

import vf

PROP = "C17"
INIT_ID = "<<0, {}>>"
FID = "C17-remove-star-sub-blocker"


# ----------------------------------------------------------------------------- known finding
def predicted_by_finding(pre_k, pre_b, s, post_exp_k):
    """What update_blockers_after_remove_star_of_vertex_or_edge (simplifiable_complex.h:136-158) makes of
    remove_star(sigma), dim sigma <= 1: every blocker B containing sigma with dim B - dim sigma >= 2 is replaced by
    the new 'blocker' B \\ sigma.  Returns (taus, predicted simplex set, predicted blocker set) or None when no
    blocker is affected (then the finding does not apply)."""
    ss = set(s)
    through = [tuple(B) for B in pre_b if ss <= set(B)]
    upd = [B for B in through if len(B) - len(s) >= 2]
    if len(s) > 2 or not upd:
        return None
    taus = {tuple(sorted(set(B) - ss)) for B in upd}
    pk = {tuple(t) for t in post_exp_k if not any(set(tau) <= set(t) for tau in taus)}
    pb = ({tuple(B) for B in pre_b} - set(through)) | taus
    return taus, pk, pb


def is_known(case):
    """case: dict(op, s, pre_k, pre_b, post_exp_k, got_k, got_b, crash_signal, cfg)"""
    if case["op"] != "remove_star":
        return False
    p = predicted_by_finding(case["pre_k"], case["pre_b"], case["s"], case["post_exp_k"])
    if p is None:
        return False
    taus, pk, pb = p
    if case.get("crash_signal") is not None:
        # assert(blocker.dimension() > 1) in add_blocker (Skeleton_blocker_complex.h:670) aborts when B \ sigma is an edge/vertex
        return case["crash_signal"] == 6 and case["cfg"].endswith("/assert") and any(len(t) <= 2 for t in taus)
    return {tuple(t) for t in case["got_k"]} == pk and {tuple(t) for t in case["got_b"]} == pb


MATCHERS = {FID: lambda dev: dev.get("_known", False)}


# ----------------------------------------------------------------------------- replay of a state graph
def classify_replay(g, banned, devs, crashes, fnd, unknown, part):
    """returns the set of known-deviating edges that lie on tree paths (to be banned in the next round)"""
    seen = {}
    on_path = set()
    parent = g.bfs_tree(banned)[0]
    for rec in devs + crashes:
        crash = rec.get("kind") == "crash"
        w = rec["where"] if crash else rec
        if not isinstance(w, dict) or w.get("phase") not in ("edge", "path"):
            unknown.append({"part": part, **rec})
            continue
        if w["phase"] == "path":
            u, k = g.path_to(parent, w["u"])[w["step"]]
        else:
            u, k = w["u"], w["k"]
        key = (w["cfg"], u, k, crash)
        if key in seen:  # the same transition seen again (as a step of a tree path, or re-run after a crash)
            if seen[key] and w["phase"] == "path":
                on_path.add((u, k))
            continue
        act, to = g.out[u][k]
        case = {"op": act["op"], "s": act.get("s", []), "pre_k": g.obs[u]["k_set"], "pre_b": g.obs[u]["blockers_set"],
                "post_exp_k": g.obs[to]["k_set"], "got_k": rec.get("got_k"), "got_b": rec.get("got_b"),
                "crash_signal": rec.get("signal") if crash else None, "cfg": w["cfg"]}
        d = dict(rec)
        d["_known"] = is_known(case)
        seen[key] = d["_known"]
        if fnd.match(PROP, d, MATCHERS) is None:
            d.pop("_known")
            unknown.append({"part": part, "pre_state": {"k_set": g.obs[u]["k_set"], "blockers_set": g.obs[u]["blockers_set"]},
                            "behaviour": [g.out[a][b][0] for a, b in g.path_to(parent, u)] + [act], **d})
        elif w["phase"] == "path":
            on_path.add((u, k))
    return on_path


def replay_graph(ev, part, g, bins, nv, heavy, fnd, unknown, shards=2, max_edges_per_state=None):
    work = os.path.join(vf.BUILD, "work", "%s_%s_%d" % (PROP, part, os.getpid()))
    env = {"VF_NV": str(nv), "VF_HEAVY": "1" if heavy else "0"}
    banned = set()
    rnd = random.Random(vf.seed())
    total = {}
    nb = 0
    for rnd_i in range(8):
        shutil.rmtree(work, ignore_errors=True)
        summ, devs, crashes, nb = vf.replay(g, bins, work, env=env, shards=shards, banned=frozenset(banned),
                                            max_edges_per_state=max_edges_per_state, rnd=rnd)
        on_path = classify_replay(g, banned, devs, crashes, fnd, unknown, part)
        total = summ
        if not on_path or unknown:
            break
        banned |= on_path  # known deviation on a tree edge: cover the behaviours behind it along another route
    shutil.rmtree(work, ignore_errors=True)
    ev.parts[part]["replay"] = {"behaviours_in_cover": nb, "configs": total, "rerouted_tree_edges": len(banned)}
    return sum(s["behaviours"] for s in total.values())


# ----------------------------------------------------------------------------- trace validation
def validate_file(path, cfg, idx):
    r = vf.tlc("Trace_SkeletonBlocker", cfg, env={"TRACE": path}, allow_violation=True, heap="4g", timeout=900,
               tag="Trace_SkeletonBlocker-%d-%d" % (os.getpid(), idx))
    if r.violation:
        raise vf.Infra("trace spec error on %s:\n%s" % (path, r.text[-3000:]))
    ok = set()
    verdict = None
    for tag, o in vf.emits(r.outfile, ("OK", "TRACE")):
        if tag == "OK":
            ok.add(o["l"])
        else:
            verdict = o
    lines = vf.read_ndjson(path)
    if verdict is None or verdict["len"] != len(lines):
        raise vf.Infra("trace spec printed no verdict for %s:\n%s" % (path, r.text[-3000:]))
    os.remove(r.outfile)
    rejected = []
    alive = True
    accepted_events = 0
    contractions = 0
    for i, e in enumerate(lines, start=1):
        if e["op"] == "reset":
            alive = True
        if not alive:
            continue
        if i in ok:
            accepted_events += 1
            if e["op"] == "contract" and e.get("lc"):
                contractions += 1
        else:
            alive = False
            rejected.append((i, e, lines[i - 2] if i >= 2 else None))
    return {"file": path, "events": len(lines), "accepted": accepted_events, "rejected": rejected,
            "lc_contractions": contractions, "wall": r.wall, "generated": r.generated}


def traces(ev, fnd, unknown, part, binary, executions, steps, nv, files, cfg):
    work = os.path.join(vf.BUILD, "work", "%s_%s_%d" % (PROP, part, os.getpid()))
    shutil.rmtree(work, ignore_errors=True)
    os.makedirs(work)
    vf.run([binary, work, str(vf.seed()), str(executions), str(steps), str(nv), str(files)], timeout=900)
    paths = sorted(glob.glob(os.path.join(work, "skbl_*.ndjson")))
    with ThreadPoolExecutor(4) as ex:
        res = list(ex.map(lambda t: validate_file(t[1], cfg, t[0]), enumerate(paths)))
    ops = {}
    acc = 0
    nrej = 0
    lcc = 0
    sample = None
    for r in res:
        acc += r["accepted"]
        lcc += r["lc_contractions"]
        for line, e, prev in r["rejected"]:
            nrej += 1
            s = e.get("s", [])
            pre_k = prev["obs"]["k_set"] if prev and "obs" in prev else []
            pre_b = prev["obs"]["blockers_set"] if prev and "obs" in prev else []
            post_exp = [t for t in pre_k if not set(s) <= set(t)]
            case = {"op": e["op"], "s": s, "pre_k": pre_k, "pre_b": pre_b, "post_exp_k": post_exp,
                    "got_k": e.get("obs", {}).get("k_set"), "got_b": e.get("obs", {}).get("blockers_set"),
                    "crash_signal": e.get("crash"), "cfg": os.path.basename(r["file"]) + "/ndebug"}
            d = {"kind": "trace_rejected", "file": r["file"], "line": line, "event": {k: v for k, v in e.items() if k != "obs"},
                 "_known": is_known(case) and e.get("crash") is None}
            if fnd.match(PROP, d, MATCHERS) is None:
                d.pop("_known")
                d["pre_state"] = {"k_set": pre_k, "blockers_set": pre_b}
                d["got"] = {"k_set": case["got_k"], "blockers_set": case["got_b"]}
                keep = os.path.join(vf.ROOT, "replays", "%s_trace_%s" % (PROP, os.path.basename(r["file"])))
                os.makedirs(os.path.dirname(keep), exist_ok=True)
                with open(r["file"]) as fi, open(keep, "w") as fo:
                    for j, ln in enumerate(fi, start=1):
                        if j <= line:
                            fo.write(ln)
                d["trace_prefix"] = keep
                unknown.append(d)
        for e in vf.read_ndjson(r["file"]):
            ops[e["op"]] = ops.get(e["op"], 0) + 1
            if sample is None and e["op"] == "contract":
                sample = {"trace_event": {k: v for k, v in e.items() if k != "obs"},
                          "logged_k_set": e.get("obs", {}).get("k_set"), "logged_blockers_set": e.get("obs", {}).get("blockers_set")}
    ev.cov["traces_validated_against_impl"] += len(paths)
    ev.parts[part] = {"trace_files": len(paths), "events": sum(r["events"] for r in res), "events_accepted": acc,
                      "executions_cut_at_a_rejected_line": nrej, "contractions_with_link_condition_homology_checked": lcc,
                      "events_by_op": ops, "handles": nv, "spec": "Trace_SkeletonBlocker.tla",
                      "tlc_wall_s": round(sum(r["wall"] for r in res), 1)}
    if sample:
        ev.sample(sample, 6)
    shutil.rmtree(work, ignore_errors=True)
    return acc


# ----------------------------------------------------------------------------- main
def finish(ev, fnd, unknown):
    fnd.report(PROP)
    if unknown:
        ev.violations = len(unknown)
        p = vf.save_replay(PROP, "deviations", unknown[:40])
        ev.write()
        vf.violation(PROP, p)
        return 1
    ev.write()
    return 0


def model_violation(ev, part, r):
    p = vf.save_replay(PROP, part + "_model", {"tlc": r.violation})
    ev.violations += 1
    ev.write()
    vf.violation(PROP, p)
    return 1


def main(tier):
    ev = vf.Evidence(PROP, tier)
    fnd = vf.Findings()
    unknown = []
    bins = vf.build_many([dict(name="skbl_replay", src="skbl_replay.cpp"),
                          dict(name="skbl_replay_nd", src="skbl_replay.cpp", defines=["NDEBUG"]),
                          dict(name="skbl_record", src="skbl_record.cpp", defines=["NDEBUG"])], par=3)
    replay_bins, rec_bin = bins[:2], bins[2]
    evaluations = 0
    distinct = 0

    # 1. exhaustive bounded model, 4 handles
    r = vf.tlc("MC_SkeletonBlocker", "MC_SkeletonBlocker_v4.cfg", timeout=600)
    if r.violation:
        return model_violation(ev, "bfs_v4", r)
    g = vf.StateGraph.from_tlc(r.outfile, init_id=INIT_ID)
    if len(g.obs) != r.distinct or any(o is None for o in g.obs):
        raise vf.Infra("state identities of the emitted graph (%d) do not match TLC's distinct states (%d)" % (len(g.obs), r.distinct))
    ev.add_tlc("bfs_v4", r, {"graph_states": len(g.obs), "graph_edges": g.nedges, "transitions_by_action": vf.by_action(g), "cfg": "MC_SkeletonBlocker_v4.cfg",
                             "in_model_theorems": ["InvRepr", "InvLinkCond", "InvContractHomotopy", "InvUnblocked",
                                                   "InvBettiAlg", "InvEulerPoincare", "InvB0"]})
    os.remove(r.outfile)
    evaluations += replay_graph(ev, "bfs_v4", g, replay_bins, 4, True, fnd, unknown)
    distinct += len(g.obs)
    k = min(len(g.out[g.init]) - 1, 1)
    ev.sample({"part": "bfs_v4", "example_edge": {"act": g.out[g.init][k][0], "to_state_obs": g.obs[g.out[g.init][k][1]]}}, 2)
    # a non-trivial sample: a contraction edge
    for u in range(len(g.out)):
        c = [(a, v) for a, v in g.out[u] if a["op"] == "contract" and not a["lc"]]
        if c:
            ev.sample({"part": "bfs_v4", "from_k_set": g.obs[u]["k_set"], "act": c[0][0], "to_k_set": g.obs[c[0][1]]["k_set"],
                       "to_blockers_set": g.obs[c[0][1]]["blockers_set"]}, 3)
            break
    if unknown:
        return finish(ev, fnd, unknown)

    # 1b. contractions on 5 handles, cases style: K5 minus one of the four edge sets with <= 2 edges (up to isomorphism),
    # every valid set of <= 2 (thorough 3) blockers loaded through add_edge_without_blockers / add_blocker, then every
    # contraction of every edge in both orientations (a blocker that is itself a candidate for the new blockers needs 5 vertices)
    cfg5 = "MC_SkeletonBlocker_c5.cfg" if tier == "quick" else "MC_SkeletonBlocker_c5_t.cfg"
    rc = vf.tlc("MC_SkeletonBlocker", cfg5, timeout=1100)
    if rc.violation:
        return model_violation(ev, "contract_v5", rc)
    gc = vf.StateGraph.from_tlc(rc.outfile, init_id=INIT_ID)
    ev.add_tlc("contract_v5", rc, {"graph_states": len(gc.obs), "graph_edges": gc.nedges, "transitions_by_action": vf.by_action(gc), "cfg": cfg5})
    os.remove(rc.outfile)
    evaluations += replay_graph(ev, "contract_v5", gc, replay_bins, 5, False, fnd, unknown, shards=4)
    distinct += len(gc.obs)
    if unknown:
        return finish(ev, fnd, unknown)

    if tier == "thorough":
        # 2a. in-model theorems on 5 handles (polynomial homology, validated against the definition on 4 handles)
        r5 = vf.tlc("MC_SkeletonBlocker", "MC_SkeletonBlocker_v5thm.cfg", workers=4, timeout=1100)
        if r5.violation:
            return model_violation(ev, "thm_v5", r5)
        ev.add_tlc("thm_v5", r5, {"cfg": "MC_SkeletonBlocker_v5thm.cfg", "in_model_theorems":
                                  ["InvRepr", "InvLinkCond", "InvContractHomotopyAlg", "InvB0Alg"]})
        distinct += r5.distinct
        os.remove(r5.outfile)
        # 2b. seeded simulation on 5 and 6 handles, every generated transition replayed
        sims = [("sim_v5", "MC_SkeletonBlocker_sim5.cfg", 5, 100, 30), ("sim_v6", "MC_SkeletonBlocker_sim6.cfg", 6, 30, 30)]
        with ThreadPoolExecutor(2) as ex:
            futs = [ex.submit(vf.tlc, "MC_SkeletonBlocker", cfg, 1, num, depth, None, 1000, False, "%s-%d" % (part, os.getpid()))
                    for part, cfg, nv, num, depth in sims]
            rss = [f.result() for f in futs]
        for (part, cfg, nv, num, depth), rs in zip(sims, rss):
            if rs.violation:
                return model_violation(ev, part, rs)
            gs = vf.StateGraph.from_tlc(rs.outfile, init_id=INIT_ID)
            os.remove(rs.outfile)
            if any(o is None for o in gs.obs):
                raise vf.Infra("simulation emitted an edge to a state without observations")
            # duplicates of one transition are one behaviour
            ne = 0
            for u in range(len(gs.out)):
                seen, out = set(), []
                for a, v in gs.out[u]:
                    key = (json.dumps(a, sort_keys=True), v)
                    if key not in seen:
                        seen.add(key)
                        out.append((a, v))
                gs.out[u] = out
                ne += len(out)
            rs.distinct, rs.generated = len(gs.obs), ne  # simulation prints no BFS statistics: measured on the emitted graph
            ev.add_tlc(part, rs, {"graph_states": len(gs.obs), "graph_edges": ne, "transitions_by_action": vf.by_action(gs), "cfg": cfg, "simulate_num": num, "depth": depth})
            evaluations += replay_graph(ev, part, gs, replay_bins, nv, False, fnd, unknown)
            if part == "sim_v6":  # the 5-handle states are already counted by thm_v5
                distinct += len(gs.obs)
            if unknown:
                return finish(ev, fnd, unknown)

    # 3. recorded executions, 6 handles
    if tier == "quick":
        evaluations += traces(ev, fnd, unknown, "traces_v6", rec_bin, 40, 30, 6, 4, "Trace_SkeletonBlocker.cfg")
    else:
        evaluations += traces(ev, fnd, unknown, "traces_v6", rec_bin, 150, 35, 6, 8, "Trace_SkeletonBlocker.cfg")

    ev.cov["evaluations"] = evaluations
    ev.cov["distinct_nontrivial"] = distinct
    ev.cov["exhaustive"] = True
    ev.cov["rule"] = ("evaluations = behaviours init ~> u -> v replayed on real complexes (one per transition of the bounded state "
                      "graph and per build configuration) + recorded events accepted by the trace specification; "
                      "distinct_nontrivial = distinct abstract states (handle count, complex) of the explored models; the 4-handle "
                      "state graph is enumerated completely (exhaustive), 5-handle simulation and 6-handle traces are samples")
    ev.assumptions = ["TLC bounded model: all closed complexes on 4 vertex handles (BFS, complete); thorough adds all complexes on 5 "
                      "handles for the in-model theorems and a simulation sample for the replay; traces on 6 handles",
                      "histories respect the documented preconditions (guards of SkeletonBlocker.tla); remove_edge/remove_vertex only "
                      "where they coincide with remove_star (no blocker through the edge / isolated vertex)",
                      "homology over Z_2; definitional on 4 handles, Gaussian elimination (checked equal on 4 handles) beyond",
                      "trusted: TLC, the projection in harness/skbl_model.hpp (public read API only)"]
    return finish(ev, fnd, unknown)
