"""Shared by C01 / C03 / C04 / C15: the SimplexTree.tla bounded models and their replay."""
import os
import random
import vf

GROUPS = [0, 1, 2, 3, 4]


def build_replay(groups=GROUPS, sanitize=None):
    jobs = [dict(name="st_replay_g%d%s" % (g, "_san" if sanitize else ""), src="st_replay.cpp",
                 defines=["VF_GROUP=%d" % g], sanitize=sanitize) for g in groups]
    return vf.build_many(jobs)


def run_model(ev, part, cfg, binaries, nv, maxdim, workers=1, simulate=None, depth=None, shards=4, tlc_timeout=1100,
              max_edges_per_state=None, gap_edges_per_state=None, extra_env=None):
    """TLC on MC_SimplexTree with `cfg`, then replay of the whole emitted graph.
    Returns (graph, summaries, deviations, crashes)."""
    r = vf.tlc("MC_SimplexTree", cfg, workers=workers, simulate=simulate, depth=depth, timeout=tlc_timeout,
               coverage=False)
    if r.violation:
        return r, None, None, None, None
    g = vf.StateGraph.from_tlc(r.outfile, init_id=[])
    ev.add_tlc(part, r, {"graph_states": len(g.obs), "graph_edges": g.nedges, "transitions_by_action": vf.by_action(g), "cfg": cfg})
    work = os.path.join(vf.BUILD, "work", "%s_%s_%d" % (ev.prop, part, os.getpid()))
    rnd = random.Random(vf.seed())
    env = {"VF_NV": str(nv), "VF_MAXDIM": str(maxdim), "VF_LABELS": "id"}
    if extra_env:
        env.update(extra_env)
    summ, devs, crashes, nb = vf.replay(g, binaries, work, env=env, shards=shards,
                                        max_edges_per_state=max_edges_per_state, rnd=rnd)
    # second cover for the label map with gaps / negative labels: insert_graph takes boost vertex descriptors
    # 0..n-1 as labels, so those behaviours route around it
    env["VF_LABELS"] = "gap"
    summ2, devs2, crashes2, nb2 = vf.replay(g, binaries, work + "_gap", env=env, shards=shards,
                                            max_edges_per_state=gap_edges_per_state or max_edges_per_state, rnd=rnd,
                                            ban_ops={"graph"})
    summ.update(summ2)
    devs += devs2
    crashes += crashes2
    ev.parts[part]["replay"] = {"behaviours_in_cover": nb, "behaviours_in_cover_gap_labels": nb2, "configs": summ}
    os.remove(r.outfile)
    return r, g, summ, devs, crashes


def record_and_validate(ev, part, executions, steps, only_ops=None):
    """Random precondition-respecting histories on 6 vertices recorded from real trees (4 option sets, two label
    maps) and validated by Trace_SimplexTree.tla.  Returns list of rejection dicts."""
    import glob
    import json
    b = vf.build("st_record", "st_record.cpp")
    work = os.path.join(vf.BUILD, "work", "%s_%s_%d" % (ev.prop, part, os.getpid()))
    os.makedirs(work, exist_ok=True)
    pr, crashed = vf.run_recorder([b, work, str(vf.seed()), str(executions), str(steps)])
    files = sorted(glob.glob(os.path.join(work, "st_*.ndjson")))
    res = vf.validate_traces("Trace_SimplexTree", "Trace_SimplexTree.cfg", files)
    rejected = []
    if crashed:   # the library crashed / threw while an execution was being recorded
        rejected.append(crashed)
    nev = 0
    ops = {}
    for r in res:
        nev += r["matched"]
        if not r["accepted"]:
            lines = open(r["file"]).read().splitlines()
            bad = json.loads(lines[r["matched"]]) if r["matched"] < len(lines) else None
            rejected.append({"kind": "trace_rejected", "file": r["file"], "line": r["matched"] + 1, "event": bad})
    for f in files:
        for line in open(f):
            o = json.loads(line)["op"]
            ops[o] = ops.get(o, 0) + 1
    ev.cov["traces_validated_against_impl"] += len(files)
    ev.parts[part] = {"trace_files": len(files), "events_matched": nev, "events_by_op": ops,
                      "spec": "Trace_SimplexTree.tla"}
    if files:
        first = open(files[0]).read().splitlines()
        if len(first) > 3:
            ev.sample({"trace_event": json.loads(first[3])}, 4)
    return rejected, files
