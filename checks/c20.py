"""C20 - Coxeter / Freudenthal-Kuhn triangulations in permutahedral representation:
consistent face lattice (vertices, faces, cofaces, is_face_of) and exact point location.

"cases" style.  spec -> code: MC_Permutahedral (TLC) enumerates every ordered partition of 0..d (d <= 4) at one
or two base vertices and every point of a dyadic lattice in [-1,2]^d, prints what Permutahedral.tla says about
each (CASE lines) and checks the in-model theorems; harness/perm_cases runs the real classes on every case.
code -> spec: harness/perm_record drives the real classes with random inputs in ambient dimension <= 7 (exact
monomial affine maps, Coxeter matrix and shears away from the walls) and Trace_Permutahedral.tla must accept
every recorded call."""
import glob
import hashlib
import json
import os
import shutil
from concurrent.futures import ThreadPoolExecutor

import vf

PROP = "C20"
MODULE = "MC_Permutahedral"
PAR = 4  # shared machine: at most 4 TLC processes / compiles / harness shards at once

# (part name, cfg, exhaustive description)
QUICK_MODELS = [
    ("faces_d1", "MC_Permutahedral_faces_d1.cfg"),
    ("faces_d2", "MC_Permutahedral_faces_d2.cfg"),
    ("faces_d3", "MC_Permutahedral_faces_d3.cfg"),
    ("faces_d4", "MC_Permutahedral_faces_d4.cfg"),
    ("loc_d1", "MC_Permutahedral_loc_d1.cfg"),
    ("loc_d2", "MC_Permutahedral_loc_d2.cfg"),
    ("loc_d3", "MC_Permutahedral_loc_d3.cfg"),
    ("loc_d4_quarter", "MC_Permutahedral_loc_d4q.cfg"),
    ("loc_unique_d2", "MC_Permutahedral_loc_d2u.cfg"),
    ("loc_unique_d3", "MC_Permutahedral_loc_d3u.cfg"),
]
THOROUGH_MODELS = [m for m in QUICK_MODELS if m[0] not in ("faces_d4", "loc_d4_quarter")] + [
    ("faces_d4_wide", "MC_Permutahedral_faces_d4w.cfg"),
    ("loc_d4", "MC_Permutahedral_loc_d4.cfg"),
    ("loc_d5_quarter", "MC_Permutahedral_loc_d5q.cfg"),
]


def classify(dev):
    return None


MATCHERS = {}


def run_models(models, timeout):
    def one(m):
        part, cfg = m
        return part, vf.tlc(MODULE, cfg, workers=1, timeout=timeout, heap="3g", tag="perm-%s-%d" % (part, os.getpid()))
    # longest first so that the pool is used well
    order = sorted(models, key=lambda m: 0 if ("d4" in m[0] or "d5" in m[0]) else 1)
    with ThreadPoolExecutor(PAR) as ex:
        return dict(ex.map(one, order))


def cleanup_ttrace():
    for p in glob.glob(os.path.join(vf.SPECS, "*Permutahedral*_TTrace_*")):
        try:
            os.remove(p)
        except OSError:
            pass


def main(tier):
    ev = vf.Evidence(PROP, tier)
    fnd = vf.Findings()
    work = os.path.join(vf.BUILD, "perm", "%s-%d" % (tier, os.getpid()))
    os.makedirs(work, exist_ok=True)
    bin_cases, bin_record = vf.build_many([dict(name="perm_cases", src="perm_cases.cpp"),
                                           dict(name="perm_record", src="perm_record.cpp")], par=2)
    models = QUICK_MODELS if tier == "quick" else THOROUGH_MODELS
    results = run_models(models, 600 if tier == "quick" else 1100)

    # ---- the bounded model: theorems, then every case on the real code
    cases_path = os.path.join(work, "cases.ndjson")
    ncases = 0
    nontrivial = set()
    universes = []
    with open(cases_path, "w") as f:
        for part, cfg in models:
            r = results[part]
            if r.violation or not r.ok:
                # an in-model theorem of the specification failed: no code is involved, the model is broken
                raise vf.Infra("in-model theorem violated in %s/%s:\n%s" % (MODULE, cfg, (r.violation or r.text)[-3000:]))
            n = 0
            for tag, o in vf.emits(r.outfile, ("CASE",)):
                if o["kind"] == "universe":
                    universes.append(o)
                    continue
                n += 1
                if o["kind"] == "simplex" and o["dim"] >= 1:
                    nontrivial.add(json.dumps([o["d"], o["s"]], sort_keys=True))
                if o["kind"] == "locate" and len(o["expect"]["p"]) >= 2:
                    nontrivial.add(json.dumps([o["d"], o["S"], o["y"]]))
                f.write(json.dumps(o, separators=(",", ":")) + "\n")
                if n in (7, 40):
                    ev.sample({"part": part, "case": _short(o)}, 6)
            ev.add_tlc(part, r, {"cases": n})
            ncases += n
            if n == 0:
                raise vf.Infra("model %s emitted no case" % cfg)
        for u in universes:
            f.write(json.dumps(u, separators=(",", ":")) + "\n")
    outs = [os.path.join(work, "cases_out_%d.ndjson" % i) for i in range(PAR)]
    vf.run_parallel([[bin_cases, cases_path, outs[i], str(i), str(PAR)] for i in range(PAR)], par=PAR,
                    timeout=900, ok_codes=(0, 3))
    unknown = []
    summ = {"cases": 0, "evaluations": 0, "deviations": 0, "located_exact": 0, "located_margin": 0, "skipped_inexact": 0}
    ops = {}
    nsumm = 0
    for o in outs:
        for rec in vf.read_ndjson(o):
            k = rec.get("kind")
            if k == "summary":
                nsumm += 1
                for key in summ:
                    summ[key] += rec[key]
                for a, b in rec["ops"].items():
                    ops[a] = ops.get(a, 0) + b
            elif k == "deviation":
                if fnd.match(PROP, rec, MATCHERS) is None:
                    unknown.append(rec)
            elif k == "crash":
                unknown.append(rec)
    if nsumm != PAR and not unknown:
        raise vf.Infra("perm_cases: %d of %d shards finished" % (nsumm, PAR))
    if summ["cases"] != ncases and not unknown:
        raise vf.Infra("perm_cases ran %d of %d cases" % (summ["cases"], ncases))
    ev.parts["replay"] = dict(summ, ops=ops)

    # ---- recorded executions validated by the trace specification
    nfiles, nev = (4, 1500) if tier == "quick" else (8, 6000)
    tdir = os.path.join(work, "traces")
    os.makedirs(tdir, exist_ok=True)
    paths = [os.path.join(tdir, "t%d.ndjson" % i) for i in range(nfiles)]
    recs = vf.run_parallel([[bin_record, paths[i], str(vf.seed() * 1000 + i), str(nev)] for i in range(nfiles)],
                           par=PAR, timeout=600, ok_codes=(0, 3))
    rec_skipped = 0
    for i, p in enumerate(recs):
        if p.returncode == 3:
            unknown.append({"kind": "crash", "where": "perm_record", "file": paths[i]})
            continue
        rec_skipped += json.loads(p.stdout.decode().strip().splitlines()[-1])["skipped_inexact"]
    infos = vf.validate_traces("Trace_Permutahedral", "Trace_Permutahedral.cfg", paths, par=PAR, timeout=900)
    nevents = 0
    ev_hash = set()
    for info in infos:
        nevents += info["matched"]
        if not info["accepted"] and info.get("truncated"):
            # the recorder died in the middle of an event: the complete events were accepted, the execution was not
            unknown.append({"kind": "trace_truncated", "file": info["file"], "events_before_the_cut": info["matched"]})
        elif not info["accepted"]:
            # a rejection is reported only if a second run rejects at the same line
            again = vf.validate_trace("Trace_Permutahedral", "Trace_Permutahedral.cfg", info["file"],
                                      tag="perm-confirm-%d" % os.getpid(), timeout=900)
            if again["accepted"] or again["matched"] != info["matched"]:
                raise vf.Infra("unstable trace verdict on %s: %s then %s" % (info["file"], info, again))
            lines = open(info["file"]).read().splitlines()
            bad = json.loads(lines[info["matched"]]) if info["matched"] < len(lines) else None
            unknown.append({"kind": "trace_rejected", "file": info["file"], "line": info["matched"] + 1, "event": bad})
        ev.cov["transitions"] += info["generated"]
    cleanup_ttrace()
    for p in paths:
        with open(p) as f:
            for k, line in enumerate(f):
                ev_hash.add(hashlib.md5(line.encode()).digest())
                if k in (3, 11) and p == paths[0]:
                    ev.sample({"part": "trace", "event": _short(json.loads(line))}, 8)
    ev.cov["traces_validated_against_impl"] = sum(1 for i in infos if i["accepted"])
    ev.parts["traces"] = {"files": nfiles, "events": nevents, "distinct_events": len(ev_hash),
                          "skipped_inexact": rec_skipped}

    ev.cov["evaluations"] = summ["evaluations"] + nevents
    ev.cov["distinct_nontrivial"] = len(nontrivial) + len(ev_hash)
    ev.cov["exhaustive"] = True
    ev.cov["rule"] = ("every ordered partition of 0..d, d <= 4 (canonical: vertices, faces of every dimension, cofaces of "
                      "every dimension, is_face_of against every canonical simplex of the 3^d neighbouring cubes in both "
                      "directions; non canonical: vertices and faces) and every point of the dyadic lattices of the loc_* "
                      "parts under 6 exact and 3 inexact (interior points only) triangulations, expected values computed by "
                      "TLC from Permutahedral.tla; plus recorded random calls (d <= 7) accepted by Trace_Permutahedral.tla. "
                      "distinct = simplices of dimension >= 1 + points not on a lattice vertex + distinct recorded events")
    ev.assumptions = [
        "index d of a part stands for -(1,..,1) (Vertex_iterator / face_from_indices); cofaces and is_face_of only on "
        "canonical representations (d in the last part), the others are rejected by Coface_iterator",
        "exact arithmetic only: dyadic points, power-of-two monomial matrices, dyadic offsets and scales; a point whose "
        "reference coordinates the library cannot compute exactly is not judged (count: skipped_inexact)",
        "Coxeter matrix and shears: only points at distance >= 1/16 from every wall, combinatorial answer only",
        "order of the labels inside a part, order of the ranges: not documented, compared as sets",
    ]
    fnd.report(PROP)
    if unknown:
        ev.violations = len(unknown)
        p = vf.save_replay(PROP, "deviations", unknown[:50])
        ev.write()
        vf.violation(PROP, p)
        return 1
    ev.write()
    # nothing to replay: drop the case file, the traces and the TLC outputs of this run
    shutil.rmtree(work, ignore_errors=True)
    for part, cfg in models:
        shutil.rmtree(os.path.join(vf.BUILD, "tlc", "perm-%s-%d" % (part, os.getpid())), ignore_errors=True)
    for i in range(nfiles):
        shutil.rmtree(os.path.join(vf.BUILD, "tlc", "Trace_Permutahedral-%d-%d" % (os.getpid(), i)), ignore_errors=True)
    return 0


def _short(o):
    s = json.dumps(o, separators=(",", ":"))
    return o if len(s) < 700 else {"kind": o.get("kind", o.get("op")), "d": o.get("d"), "s": o.get("s"), "truncated": s[:500]}
