"""C18 - Persistence landscapes equal their definition and form a normed vector space.

"cases" style on an exact lattice (integer diagrams, abscissae in (1/8)Z, dyadic scalars; everything is an integer
over a fixed denominator, see specs/Landscape.tla).
spec -> code: MC_Landscape (TLC) enumerates every diagram with <= 3 intervals with endpoints in 0..6, pairs and triples
of smaller diagrams, and prints for each case landscape expressions (sum, difference, multiple, absolute value, average,
linear combination) with the value of every level at every point of the quarter lattice, their integrals, and pairs
of expressions with their L1 / L2 / sup distances and inner product; it checks the in-model theorems (k-th largest =
Bubenik's definition = sorting, shape, areas, interpolation on admissible grids, metric laws, Cauchy-Schwarz,
polarisation, triangle inequality, bilinearity).  harness/land_cases runs every case on Persistence_landscape and, on
every grid on which the gridded form is exact, on Persistence_landscape_on_grid.
code -> spec: harness/land_record drives both classes with random diagrams of up to 8 intervals in 0..20 and
Trace_Landscape.tla re-computes every recorded call."""
import glob
import hashlib
import json
import os
import shutil
from concurrent.futures import ThreadPoolExecutor

import vf

PROP = "C18"
MODULE = "MC_Landscape"
PAR = 4  # shared machine: at most 4 TLC processes / compiles / harness shards at once

QUICK_MODELS = [
    ("single_3x6", "MC_Landscape_single_q.cfg"),
    ("triple_2x3", "MC_Landscape_triple_q.cfg"),
    ("pair_2x3", "MC_Landscape_pair_q.cfg"),
    ("def_3x3", "MC_Landscape_def_q.cfg"),
]
THOROUGH_MODELS = [
    ("single_4x5", "MC_Landscape_single_t.cfg"),
    ("single_3x7", "MC_Landscape_single_t2.cfg"),
    ("triple_2x3", "MC_Landscape_triple_t.cfg"),
    ("pair_3x4", "MC_Landscape_pair_t2.cfg"),
    ("pair_2x4", "MC_Landscape_pair_t.cfg"),
    ("def_3x4", "MC_Landscape_def_t.cfg"),
]


def _is(d, **kw):
    return all(d.get(k) == v for k, v in kw.items())


# known findings: operation + the input predicate TLC attached to the case (flat, negzero, nonint, overfull)
MATCHERS = {
    "C18-grid-value-at-grid-point": lambda d: d["op"] == "grid.value_at",
    "C18-grid-levels-heap": lambda d: d["op"] == "grid.levels" and d.get("overfull") is True,
    "C18-grid-integral-p-flat": lambda d: d.get("flat") is True and d.get("form") == "grid" and (
        d["op"] in ("grid.integral_p", "grid.integral_p_level") or (d["op"] in ("grid.distance", "grid.free_distance") and d.get("p") == 2)),
    "C18-sup-distance-extra-levels": lambda d: d["op"] in ("exact.distance", "grid.distance", "exact.free_distance",
                                                              "grid.free_distance") and d.get("p") == "inf"
    and d.get("negzero") is True,
    "C18-grid-sup-distance-integer-abs": lambda d: d["op"] in ("grid.distance", "grid.free_distance") and d.get("p") == "inf"
    and d.get("nonint") is True,
}


def trace_signature(ev, flags):
    """signature (same fields as the deviation keys of land_cases) of a rejected trace line"""
    form = ev.get("form", "?")
    op = ev.get("op")
    d = {"form": form}
    d.update(flags or {})
    if op in ("value_at", "crash"):
        d["op"] = "grid.value_at" if (op == "value_at" or ev.get("what") == "grid.value_at") else "crash"
    elif op == "integral":
        p = ev.get("p")
        d["op"] = "%s.integral%s" % (form, "" if p == 0 else ("_p" if ev.get("level", -1) < 0 else "_p_level"))
        d["p"] = p
    elif op == "distance":
        d["op"] = "%s.distance" % form
        d["p"] = "inf" if ev.get("p") == 0 else ev.get("p")
    else:
        d["op"] = "%s.%s" % (form, op)
    return d


def run_jobs(models, timeout):
    """TLC models and the two compilations share one pool of PAR workers (longest first)."""
    def model(m):
        part, cfg = m
        return vf.tlc(MODULE, cfg, workers=1, timeout=timeout, heap="4g", tag="land-%s-%d" % (part, os.getpid()))
    with ThreadPoolExecutor(PAR) as ex:
        futs = {}
        for i, m in enumerate(models):
            futs[m[0]] = ex.submit(model, m)
            if i == 1:  # after the two longest models
                b1 = ex.submit(vf.build, "land_cases", "land_cases.cpp")
                b2 = ex.submit(vf.build, "land_record", "land_record.cpp")
        return {k: f.result() for k, f in futs.items()}, b1.result(), b2.result()


def cleanup_ttrace():
    for p in glob.glob(os.path.join(vf.SPECS, "*Landscape*_TTrace_*")):
        try:
            os.remove(p)
        except OSError:
            pass


def _short(o, n=900):
    s = json.dumps(o, separators=(",", ":"))
    return o if len(s) < n else {"truncated": s[:n]}


def main(tier):
    ev = vf.Evidence(PROP, tier)
    fnd = vf.Findings()
    work = os.path.join(vf.BUILD, "land", "%s-%d" % (tier, os.getpid()))
    os.makedirs(work, exist_ok=True)
    models = QUICK_MODELS if tier == "quick" else THOROUGH_MODELS
    results, bin_cases, bin_record = run_jobs(models, 400 if tier == "quick" else 1150)

    # ---- the bounded models: in-model theorems, then every case on the real code
    cases_path = os.path.join(work, "cases.ndjson")
    ncases = 0
    nontrivial = set()
    with open(cases_path, "w") as f:
        for u, (part, cfg) in enumerate(models, 1):
            r = results[part]
            if r.violation or not r.ok:
                # an in-model theorem of the specification failed: no code is involved, the model is broken
                raise vf.Infra("in-model theorem violated in %s/%s:\n%s" % (MODULE, cfg, (r.violation or r.text)[-3000:]))
            n = 0
            for tag, o in vf.emits(r.outfile, ("CASE",)):
                o["u"] = u
                f.write(json.dumps(o, separators=(",", ":")) + "\n")
                if o["kind"] == "universe":
                    continue
                n += 1
                for e in o["exprs"]:
                    if e["nlev"] >= 1:
                        nontrivial.add(hashlib.md5(json.dumps([e["op"], e["args"], e["coef"], e["den"]]).encode()).digest())
                for d in o["dists"]:
                    if d["d2"] != 0:
                        nontrivial.add(hashlib.md5(json.dumps([d["x"], d["y"]]).encode()).digest())
                if n in (11, 300):
                    e = o["exprs"][0]
                    ev.sample({"part": part, "expr": {k: e[k] for k in ("op", "args", "coef", "den", "abs")},
                               "level1_times8den": e["rows"][0], "integrals_times64den": e["ints"],
                               "dist": _short({k: o["dists"][0][k] for k in ("x", "y", "d1", "d2", "dsup", "ip", "den")})}, 6)
            ev.add_tlc(part, r, {"cases": n})
            ncases += n
            if n == 0:
                raise vf.Infra("model %s emitted no case" % cfg)
    outs = [os.path.join(work, "cases_out_%d.ndjson" % i) for i in range(PAR)]
    vf.run_parallel([[bin_cases, cases_path, outs[i], str(i), str(PAR), str(vf.seed())] for i in range(PAR)], par=PAR,
                    timeout=1000, ok_codes=(0, 3))
    unknown = []
    summ = {"cases": 0, "evaluations": 0, "deviations": 0, "crashes": 0, "children": 0}
    ops, keys, examples = {}, {}, {}
    nsumm = 0
    for o in outs:
        for rec in vf.read_ndjson(o):
            k = rec.get("kind")
            if k == "summary":
                nsumm += 1
                for key in summ:
                    summ[key] += rec[key]
                for a, b in rec["ops"].items():
                    ops[a] = ops.get(a, 0) + b
                for a, b in rec["dev_keys"].items():
                    keys[a] = keys.get(a, 0) + b
            elif k == "deviation":
                examples.setdefault(json.dumps(rec["key"], separators=(",", ":")), []).append(rec)
            elif k == "crash":
                if rec.get("op") == "grid.value_at":
                    if fnd.match(PROP, {"op": "grid.value_at", "form": "grid", "crash": True}, MATCHERS) is None:
                        unknown.append(rec)
                else:
                    unknown.append(rec)  # a crash outside the guarded evaluation
    if nsumm != PAR and not unknown:
        raise vf.Infra("land_cases: %d of %d shards finished" % (nsumm, PAR))
    if summ["cases"] != ncases and not unknown:
        raise vf.Infra("land_cases ran %d of %d cases" % (summ["cases"], ncases))
    known_counts = {}
    for key, cnt in sorted(keys.items()):
        sig = json.loads(key)
        fid = fnd.match(PROP, sig, MATCHERS)
        if fid is None:
            ex = examples.get(json.dumps(sig, separators=(",", ":")), [])
            unknown.append({"kind": "deviation", "signature": sig, "occurrences": cnt, "examples": ex[:3]})
        else:
            fnd.seen[fid] += cnt - 1
            known_counts[fid] = known_counts.get(fid, 0) + cnt
    ev.parts["replay"] = dict(summ, ops=ops, known_deviations=known_counts)

    # ---- recorded executions validated by the trace specification
    nfiles, rounds = (4, 6) if tier == "quick" else (8, 30)
    tdir = os.path.join(work, "traces")
    os.makedirs(tdir, exist_ok=True)
    paths = [os.path.join(tdir, "t%d.ndjson" % i) for i in range(nfiles)]
    vf.run_parallel([[bin_record, paths[i], str(vf.seed() * 1000 + i), str(rounds)] for i in range(nfiles)],
                    par=PAR, timeout=600)
    tags = ["Trace_Landscape-%d-%d" % (os.getpid(), i) for i in range(nfiles)]
    with ThreadPoolExecutor(PAR) as ex:
        infos = list(ex.map(lambda i: vf.validate_trace("Trace_Landscape", "Trace_Landscape.cfg", paths[i], tag=tags[i],
                                                        timeout=1100), range(nfiles)))
    nevents = nbad = nskip = 0
    ev_hash = set()
    for i, info in enumerate(infos):
        lines = open(paths[i]).read().splitlines()
        if not info["accepted"] or info["len"] != len(lines):
            raise vf.Infra("Trace_Landscape judged %s of %s lines of %s" % (info.get("matched"), len(lines), paths[i]))
        nevents += info["len"]
        ev.cov["transitions"] += info["generated"]
        for tag, o in vf.emits(os.path.join(vf.BUILD, "tlc", tags[i], "out.txt"), ("BAD", "SKIP")):
            if tag == "SKIP":
                nskip += 1
                continue
            nbad += 1
            event = json.loads(lines[o["l"] - 1])
            sig = trace_signature(event, o.get("flags"))
            if fnd.match(PROP, sig, MATCHERS) is None:
                unknown.append({"kind": "trace_rejected", "file": paths[i], "line": o["l"], "signature": sig, "event": event})
        for k, line in enumerate(lines):
            ev_hash.add(hashlib.md5(line.encode()).digest())
            if i == 0 and k in (1, 30):
                ev.sample({"part": "trace", "event": _short(json.loads(line))}, 8)
    cleanup_ttrace()
    ev.cov["traces_validated_against_impl"] = len(infos)
    ev.parts["traces"] = {"files": nfiles, "events": nevents, "distinct_events": len(ev_hash), "rejected": nbad,
                          "not_judged_precondition": nskip}

    ev.cov["evaluations"] = summ["evaluations"] + nevents
    ev.cov["distinct_nontrivial"] = len(nontrivial) + len(ev_hash)
    ev.cov["exhaustive"] = True
    ev.cov["rule"] = ("every multiset of <= 3 intervals with endpoints in 0..6 (quick; <= 4 in 0..5 and <= 3 in 0..7 thorough): "
                      "every level at every point of the quarter lattice of [-2, 8], integrals, vectorize, level-limited "
                      "constructors, exact form and gridded form on every grid of 4 on which the gridded form is exact; "
                      "all unordered pairs of diagrams with <= 2 intervals in 0..3 (0..4 thorough) x 9 expressions x 7 "
                      "distance/inner-product pairs in both orders; triples of such diagrams (every 5th in quick); expected "
                      "values computed by TLC from Landscape.tla; plus recorded random calls (<= 8 intervals in 0..20) "
                      "re-computed by Trace_Landscape.tla.  distinct = expressions with a non zero level + pairs at non "
                      "zero distance + distinct recorded events")
    ev.assumptions = [
        "integer diagrams with b < d, abscissae on the quarter lattice, scalars n/1, n/2, n/4, averages of 1, 2, 4 "
        "landscapes exact, of 3 within 1e-9; results that go through pow or a division by 3 within 1e-7 relative",
        "gridded form only on grids that contain the diagrams with all endpoints on the 2 dx lattice (tent tops and "
        "crossings are grid points) and, for abs / distances, only when |x - y| is the interpolation of its grid values "
        "(TLC decides: GridOK, InterpExact, SignQ); L1 distance only when the zeros of x - y are lattice points",
        "Persistence_landscape::vectorize is compared by a predicate (specified breakpoint values are a subsequence of it, "
        "it is a subsequence of the lattice values); order of the intervals handed to the constructors is shuffled",
        "values exactly at grid points through compute_value_at_a_given_point are evaluated in a child process (the "
        "unrepaired code indexes past the end of a vector there); the same values are also read through vectorize",
    ]
    fnd.report(PROP)
    if unknown:
        ev.violations = len(unknown)
        p = vf.save_replay(PROP, "deviations", unknown[:50])
        ev.write()
        vf.violation(PROP, p)
        return 1
    ev.write()
    shutil.rmtree(work, ignore_errors=True)
    for part, cfg in models:
        shutil.rmtree(os.path.join(vf.BUILD, "tlc", "land-%s-%d" % (part, os.getpid())), ignore_errors=True)
    for t in tags:
        shutil.rmtree(os.path.join(vf.BUILD, "tlc", t), ignore_errors=True)
    return 0
