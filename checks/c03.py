"""C03 - filtration order and filtration-value maintenance are valid and deterministic."""
import glob
import json
import os
import vf
from checks import st_common

PROP = "C03"
def _m_all_ignored(dev):
    """C03-all-ignored-cache-recomputed: only the range after initialize_filtration(true), only when the specification
    expects it EMPTY (every simplex has an infinite value) and the library lists simplices."""
    ds = dev.get("diffs", [])
    return bool(ds) and all(d["path"] == "obs.filt_noinf" and d.get("exp") == [] and d.get("got") for d in ds)


MATCHERS = {"C03-all-ignored-cache-recomputed": _m_all_ignored}
C03_OPS = ("make_non_decreasing", "prune_filt", "assign", "extend")


def relevant(dev):
    """A deviation belongs to C03 when the filtration order is wrong although the stored complex is right, or when one
    of the filtration-maintenance operations deviates (state or return value)."""
    paths = [d["path"] for d in dev.get("diffs", [])]
    if dev.get("act", {}).get("op") in C03_OPS:
        return True
    return any(p.startswith("obs.filt") for p in paths) and not any(p.startswith("obs.k_set") for p in paths)


def cubical_order_part(ev, unknown, tier):
    """The filtration order of cubical complexes (Bitmap_cubical_complex.h) is part of this property: the cases of the
    C13 model (Cubical.tla: order by (value, dimension, bitmap position)) are run on the real complexes and the
    deviations of filtration_simplex_range are attributed to C03."""
    from checks import c13
    work = os.path.join(vf.BUILD, "work", "%s_cub_%d" % (PROP, os.getpid()))
    os.makedirs(work, exist_ok=True)
    b = vf.build("cub_cases", "cub_cases.cpp")
    models = c13.QUICK_MODELS
    results = c13.run_models(models, 700)
    cases_path = os.path.join(work, "cases.ndjson")
    n = 0
    with open(cases_path, "w") as f:
        for part, cfg, k in models:
            for i in range(k):
                r = results[(part, i)]
                if r.violation or not r.ok:
                    raise vf.Infra("Cubical model failed: %s" % (r.violation or r.text)[-1500:])
                for tag, o in vf.emits(r.outfile, ("CASE",)):
                    f.write(json.dumps(o, separators=(",", ":")) + "\n")
                    n += 1
                ev.add_tlc("cubical_%s[%d]" % (part, i), r)
    outs = [os.path.join(work, "out_%d.ndjson" % i) for i in range(4)]
    vf.run_parallel([[b, cases_path, outs[i], str(i), "4"] for i in range(4)], par=4, timeout=900, ok_codes=(0, 3))
    nord = 0
    for o in outs:
        for rec in vf.read_ndjson(o):
            if rec.get("kind") == "deviation" and rec.get("op") == "filtration_simplex_range":
                unknown.append(rec)
            elif rec.get("kind") == "summary":
                nord += rec.get("cases", 0)
    ev.parts["cubical_filtration_order"] = {"cases": n, "valued_complexes_run": nord,
                                            "compared": "filtration_simplex_range of Bitmap_cubical_complex (plain and periodic) against the "
                                                        "order (value, dimension, position) of Cubical.tla, exactly"}
    return nord


def main(tier):
    ev = vf.Evidence(PROP, tier)
    fnd = vf.Findings()
    bins = st_common.build_replay()
    # quick: values {0, 1} and +infinity (assign_filtration may give +infinity), thorough: {0, 1, 2} and +infinity
    cfg = "MC_SimplexTree_filt3_qi.cfg" if tier == "quick" else "MC_SimplexTree_filt3_t.cfg"
    unknown = []
    r, g, summ, devs, crashes = st_common.run_model(ev, "filt_v3", cfg, bins, 3, 2,
                                                    gap_edges_per_state=6 if tier == "quick" else None,
                                                    max_edges_per_state=None if tier == "quick" else 12,
                                                    extra_env={"VF_LIVE_CACHE": "1"})
    if r.violation:
        p = vf.save_replay(PROP, "model", {"tlc": r.violation})
        vf.violation(PROP, p)
        ev.violations += 1
        ev.write()
        return 1
    for c in crashes:
        unknown.append(c)
    nrel = 0
    for d in devs:
        if relevant(d):
            nrel += 1
            if fnd.match(PROP, d, MATCHERS) is None:
                unknown.append(d)
    total = sum(s["behaviours"] for s in summ.values())
    ev.parts["filt_v3"]["deviations_attributed_elsewhere"] = len(devs) - nrel
    if tier == "thorough":
        # unbounded companions of two in-model theorems (TLAPS): the filtration comparison is a strict total order whenever
        # its two ingredients are, and taking the maximum over the faces is the least monotone function above the input
        import subprocess
        pr = subprocess.run([os.path.join(vf.ROOT, "bin", "prove")], capture_output=True, timeout=2000)
        lines = pr.stdout.decode(errors="replace").splitlines()
        if pr.returncode != 0 or not lines or not all(x.startswith("PROVED") for x in lines):
            raise vf.Infra("TLAPS proofs of specs/proofs did not check:\n" + "\n".join(lines) + pr.stderr.decode(errors="replace")[-2000:])
        ev.parts["tlaps_proofs"] = {"modules": lines}
    # orders under several thread counts, with and without TBB; extended filtrations
    work = os.path.join(vf.BUILD, "work", "%s_traces_%d" % (PROP, os.getpid()))
    os.makedirs(work, exist_ok=True)
    b_seq = vf.build("st_order_seq", "st_order.cpp")
    b_tbb = vf.build("st_order_tbb", "st_order.cpp", defines=["GUDHI_USE_TBB"])
    n_order, n_ext = (3, 60) if tier == "quick" else (12, 400)
    for b in (b_seq, b_tbb):
        _, crashed = vf.run_recorder([b, work, str(vf.seed()), str(n_order), str(n_ext)])
        if crashed:
            unknown.append(crashed)
    files = sorted(glob.glob(os.path.join(work, "*.ndjson")))
    res = vf.validate_traces("Trace_SimplexTree", "Trace_SimplexTree_big.cfg", files, par=6)
    nev = 0
    for rr in res:
        nev += rr["matched"]
        if not rr["accepted"]:
            lines = open(rr["file"]).read().splitlines()
            bad = json.loads(lines[rr["matched"]]) if rr["matched"] < len(lines) else None
            if bad and "filt" in bad:
                bad = {k: v for k, v in bad.items() if k not in ("k", "filt")}
            unknown.append({"kind": "trace_rejected", "file": rr["file"], "line": rr["matched"] + 1, "event": bad})
    ev.cov["traces_validated_against_impl"] += len(files)
    ev.parts["traces"] = {"files": [os.path.basename(f) for f in files], "events_matched": nev,
                          "order_runs": "each complex sorted by initialize_filtration under 1/2/4/16 TBB threads x 2 and in a build without GUDHI_USE_TBB",
                          "spec": "Trace_SimplexTree.tla (load / extend events)"}
    first = open(files[-1]).read().splitlines()
    ev.sample({"extend_event": json.loads(first[1]) if len(first) > 1 else None}, 3)
    ev.sample({"edge": {"act": g.out[g.init][0][0]}}, 3)
    ncub = cubical_order_part(ev, unknown, tier)
    ev.cov["evaluations"] = total + nev + ncub
    ev.cov["distinct_nontrivial"] = ev.cov["states"]
    ev.cov["exhaustive"] = True
    ev.cov["rule"] = ("TLC BFS over all value assignments (3 values, + infinity in thorough) of all complexes on 3 vertices with "
                      "assign_filtration / make_filtration_non_decreasing / prune_above_filtration / insert / remove; in-model theorems: "
                      "Before is a strict total order, the sorted sequence extends inclusion on monotone filtrations, the hull is the "
                      "least monotone function above the input, sublevel sets are complexes, the extended filtration is monotone; every "
                      "transition replayed on every option set (filtration_simplex_range with and without ignored infinite values "
                      "compared as sequences); recorded sorts of complexes with hundreds of simplices and 2-3 distinct values under "
                      "several thread counts, and extend_filtration / decode_extended_filtration on exact lattices, validated by TLC")
    ev.assumptions = ["the scheduler is observed under 1/2/4/16 threads, not controlled (design-level determinism: Before is total)",
                      "extend_filtration judged only when max - min of the vertex values is 0, 1, 2 or 4 (exact arithmetic)"]
    fnd.report(PROP)
    if unknown:
        ev.violations = len(unknown)
        p = vf.save_replay(PROP, "deviations", unknown[:50])
        ev.write()
        vf.violation(PROP, p)
        return 1
    ev.write()
    return 0
