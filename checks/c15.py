"""C15 - copies, moves and serialisation round-trip to equal, independent objects; no memory error / UB.

Division of labour: Lifecycle.tla (TLC) decides equality and independence on every interleaving of the life-cycle
operations; the memory-safety clause is decided by ASan/UBSan/TSan on the executions the specifications generate."""
import json
import os
import random
import subprocess
import vf
from checks import st_common, pm_common

PROP = "C15"
ASAN_ENV = {"ASAN_OPTIONS": "halt_on_error=0:detect_leaks=1:abort_on_error=0", "UBSAN_OPTIONS": "print_stacktrace=1"}


def _m_overread(dev):
    a = dev.get("act", {})
    if a.get("op") != "deserialize" or a.get("delta", 0) >= 0:
        return False
    paths = [d["path"] for d in dev.get("diffs", [])]
    return paths and all(p == "act.overread" for p in paths)


MATCHERS = {"C15-deserialize-truncated-overread": _m_overread,
            "C15-matrix-moved-from-unusable": lambda n: n.get("kind") == "note" and n.get("tag") == "moved_from_unusable"}


def matrix_lifecycle_part(ev, fnd, unknown, tier):
    """MatrixLifecycle.tla: copies / moves / assignments / swaps / destructions of matrices interleaved with
    insert_boundary / remove_last / vine_swap, with the provenance of every object (copy with a live source, copy
    whose source is gone, moved) part of the state so that 'a copy whose source was destroyed is mutated' is a
    transition of the graph.  Replayed under ASan+UBSan on 8-12 Matrix option sets per column type and field."""
    cols = pm_common.pick_cols(tier) if tier == "thorough" else [0, [1, 2, 3, 4, 5, 6, 7, 8][vf.seed() % 8]]
    jobs = [dict(name="lcm_c%d_z%d_san" % (c, z2), src="lcm_replay.cpp", defines=["VF_COL=%d" % c, "VF_Z2=%d" % z2],
                 sanitize="address,undefined") for c in cols for z2 in (0, 1)]
    bins = vf.build_many(jobs, par=min(len(jobs), 12))
    total = 0
    plan = [("lifecycle_matrix_z3", "MC_MatrixLifecycle_z3.cfg", 0, 3, 2, None),
            ("lifecycle_matrix_z2_vine", "MC_MatrixLifecycle_z2v.cfg", 1, 2, 2, None)]
    if tier == "thorough":   # larger bounds, outgoing transitions of every state sampled
        # (108 591 and 27 937 states with the provenance and `rem` ghosts: one / two outgoing transitions per state on three
        # column types; the two small graphs are replayed in full on every column type)
        plan += [("lifecycle_matrix_z3_3slots", "MC_MatrixLifecycle_z3_s3.cfg", 0, 3, 3, 1),
                 ("lifecycle_matrix_z2_vine_3vertices", "MC_MatrixLifecycle_z2v_t.cfg", 1, 2, 2, 2)]
    for part, cfg, z2, p, nslots, per_state in plan:
        r = vf.tlc("MC_MatrixLifecycle", cfg, workers=1, timeout=1500)
        if r.violation:
            unknown.append({"kind": "model", "tlc": r.violation})
            continue
        init = {"objs": [{"live": False, "f": [], "kind": "none", "src": 0, "rem": False} for _ in range(nslots)]}
        g = vf.StateGraph.from_tlc(r.outfile, init_id=init)
        ev.add_tlc(part, r, {"graph_states": len(g.obs), "graph_edges": g.nedges, "transitions_by_action": vf.by_action(g), "cfg": cfg})
        os.remove(r.outfile)
        work = os.path.join(vf.BUILD, "work", "%s_%s_%d" % (PROP, part, os.getpid()))
        env = dict(ASAN_ENV)
        env.update({"VF_SLOTS": str(nslots), "VF_P": str(p)})
        mine = [b for b, j in zip(bins, jobs) if ("VF_Z2=%d" % z2) in j["defines"]]
        if per_state is not None:
            mine = mine[:3]
        del vf.last_notes[:]
        summ, devs, crashes, nb = vf.replay(g, mine, work, env=env, shards=8, rnd=random.Random(vf.seed()),
                                            walks=100 if tier == "quick" else 150, walk_len=24, timeout=3000,
                                            max_edges_per_state=per_state)
        beh = sum(s["behaviours"] for s in summ.values())
        ev.parts[part]["replay"] = {"behaviours_in_cover": nb, "configs": len(summ), "behaviours": beh,
                                    "steps": sum(s["steps"] for s in summ.values()), "sanitizers": "address,undefined",
                                    "uses_of_moved_from_matrices_probed": len(vf.last_notes)}
        total += beh
        if not summ:
            unknown.append({"part": part, "kind": "infra", "what": "no configuration reported"})
        for n in vf.last_notes:
            if fnd.match(PROP, n, MATCHERS) is None:
                unknown.append({"part": part, **n})
        for c in crashes:
            unknown.append({"part": part, **c})
        for d in devs:
            if fnd.match(PROP, d, MATCHERS) is None:
                unknown.append({"part": part, **d})
        ex = next(((a, v) for u in range(len(g.out)) for a, v in g.out[u] if a["op"] == "copy_assign" and a["i"] != a["j"]), None)
        if ex:
            ev.sample({"part": part, "act": ex[0]}, 4)
    return total


def lifecycle_part(ev, fnd, unknown, part, cfg, slots, bins, shards, per_state=None):
    r = vf.tlc("MC_Lifecycle", cfg, workers=1, timeout=1100)
    if r.violation:
        unknown.append({"kind": "model", "tlc": r.violation})
        return 0
    init = {"objs": [{"live": False, "k_set": [], "filt": []} for _ in range(slots)], "buf": {"some": False, "k_set": []}}
    g = vf.StateGraph.from_tlc(r.outfile, init_id=init)
    ev.add_tlc(part, r, {"graph_states": len(g.obs), "graph_edges": g.nedges, "transitions_by_action": vf.by_action(g), "cfg": cfg})
    work = os.path.join(vf.BUILD, "work", "%s_%s_%d" % (PROP, part, os.getpid()))
    env = dict(ASAN_ENV)
    env["VF_SLOTS"] = str(slots)
    summ, devs, crashes, nb = vf.replay(g, bins, work, env=env, shards=shards, rnd=random.Random(vf.seed()), walks=100, walk_len=20,
                                        max_edges_per_state=per_state, timeout=3000)
    ev.parts[part]["replay"] = {"behaviours_in_cover": nb, "configs": summ, "sanitizers": "address,undefined"}
    os.remove(r.outfile)
    for c in crashes:
        unknown.append({"part": part, **c})
    for d in devs:
        if fnd.match(PROP, d, MATCHERS) is None:
            unknown.append({"part": part, **d})
    ex = next(((a, v) for u in range(len(g.out)) for a, v in g.out[u] if a["op"] == "move_assign"), None)
    if ex:
        ev.sample({"part": part, "act": ex[0], "to_objs": g.obs[ex[1]]["objs"]}, 3)
    return sum(s["behaviours"] for s in summ.values())


def sanitized_other_drivers(ev, unknown, tier):
    """Memory-safety clause 'in every other check of this suite': the replay drivers of the simplex-tree and the
    persistence-matrix models are rebuilt with ASan+UBSan and run on (a part of) their state graphs."""
    total = 0
    # simplex tree: complete 4-vertex / 1-value graph, two option-set groups in quick, all in thorough
    groups = [[0, 3][vf.seed() % 2]] if tier == "quick" else st_common.GROUPS
    bins = st_common.build_replay(groups, sanitize="address,undefined")
    r = vf.tlc("MC_SimplexTree", "MC_SimplexTree_q4.cfg", workers=1, timeout=1100)
    g = vf.StateGraph.from_tlc(r.outfile, init_id=[])
    os.remove(r.outfile)
    work = os.path.join(vf.BUILD, "work", "%s_san_st_%d" % (PROP, os.getpid()))
    env = dict(ASAN_ENV)
    env.update({"VF_NV": "4", "VF_MAXDIM": "3", "VF_LABELS": "id"})
    summ, devs, crashes, nb = vf.replay(g, bins, work, env=env, shards=6, max_edges_per_state=None if tier == "thorough" else 10,
                                        rnd=random.Random(vf.seed()))
    ev.parts["sanitized_simplex_tree_replay"] = {"behaviours": sum(s["behaviours"] for s in summ.values()), "configs": len(summ)}
    total += ev.parts["sanitized_simplex_tree_replay"]["behaviours"]
    for d in devs + crashes:
        unknown.append({"part": "sanitized_simplex_tree_replay", **d})
    # persistence matrices: insertion/remove_last family and vine family on the default column type (all in thorough)
    cols = [0] if tier == "quick" else [0, 4, 8]
    for fam, cfg, zp in ((0, "MC_PersistenceMatrix_z2.cfg", False), (1, "MC_Vineyard_z2.cfg", False)):
        mb, jobs = pm_common.build(fam, cols, zp=zp, sanitize="address,undefined")
        r = vf.tlc("MC_PersistenceMatrix", cfg, workers=1, timeout=1100)
        g = vf.StateGraph.from_tlc(r.outfile, init_id={"f": [], "h": {"rem": False, "swp": False}})
        os.remove(r.outfile)
        work = os.path.join(vf.BUILD, "work", "%s_san_pm%d_%d" % (PROP, fam, os.getpid()))
        env = dict(ASAN_ENV)
        env.update({"VF_P": "2"})
        summ, devs, crashes, nb = vf.replay(g, mb, work, env=env, shards=6, rnd=random.Random(vf.seed()),
                                            walks=20 if tier == "quick" else 60, walk_len=12,
                                            max_edges_per_state=8 if tier == "quick" else None)
        name = "sanitized_matrix_replay_family%d" % fam
        ev.parts[name] = {"behaviours": sum(s["behaviours"] for s in summ.values()), "configs": len(summ)}
        total += ev.parts[name]["behaviours"]
        # only memory errors are C15's business here; deviations of the matrices' behaviour belong to C05/C06
        for d in devs:
            if any(x["path"] == "sanitizer" for x in d.get("diffs", [])):
                known = PM_KNOWN(d)
                if not known:
                    unknown.append({"part": name, **d})
        for c in crashes:
            cd = pm_common.crash_as_dev(PROP, c, "san_pm%d" % fam)
            if not PM_KNOWN(cd):
                unknown.append({"part": name, **c})
    return total


def PM_KNOWN(dev):
    """Memory errors that are consequences of the findings already listed under C06 (vine updates on histories with
    removals, identifiers != positions, barcode-less RU with map containers, non-intrusive chain columns)."""
    from checks import c06
    return any(m(dev) for m in list(c06.MATCHERS.values())) or (dev.get("cfg", "").startswith("RUv/") and dev.get("cfg", "").endswith("/gap"))


def threads_part(ev, unknown, tier):
    b = vf.build("lc_threads_tsan", "lc_threads.cpp", sanitize="thread")
    runs = 3 if tier == "quick" else 12
    reports = 0
    for k in range(runs):
        p = subprocess.run([b, str(vf.seed() * 100 + k), "6", "300"], capture_output=True, timeout=900)
        out = p.stdout.decode(errors="replace") + p.stderr.decode(errors="replace")
        n = out.count("WARNING: ThreadSanitizer") + out.count("ERROR: ThreadSanitizer")
        reports += n
        if p.returncode != 0 or n:
            unknown.append({"kind": "threads", "run": k, "rc": p.returncode, "output": out[-1500:]})
    ev.parts["threads_tsan"] = {"runs": runs, "threads_per_run": 6, "steps_per_thread": 300, "sanitizer_reports": reports,
                                "what": "each thread drives its own Simplex_trees / matrices / cohomology computation; the final states "
                                        "equal those of the same histories run sequentially"}
    return runs * 6


def main(tier):
    ev = vf.Evidence(PROP, tier)
    fnd = vf.Findings()
    unknown = []
    jobs = [dict(name="lc_replay_g%d_san" % g, src="lc_replay.cpp", defines=["VF_GROUP=%d" % g], sanitize="address,undefined")
            for g in (0, 1)]
    bins = vf.build_many(jobs)
    total = 0
    import time
    t0 = time.time()

    def lap(name):
        ev.parts.setdefault("wall_by_part_s", {})[name] = round(time.time() - t0, 1)
        vf.log("[c15] %s done at %.0fs" % (name, time.time() - t0))
    # the sanitized replay is slow (ASan, one fork per wrong-length deserialize): quick samples the outgoing edges
    # of every state of the 2-slot graph (2 per state), thorough replays all 142 380 of them
    total += lifecycle_part(ev, fnd, unknown, "lifecycle_tree_2slots", "MC_Lifecycle_tree2.cfg", 2, bins, 6,
                            per_state=2 if tier == "quick" else None)
    lap("lifecycle_tree_2slots")
    total += lifecycle_part(ev, fnd, unknown, "lifecycle_tree_3slots", "MC_Lifecycle_tree3.cfg", 3, bins, 4,
                            per_state=6 if tier == "quick" else None)
    lap("lifecycle_tree_3slots")
    total += matrix_lifecycle_part(ev, fnd, unknown, tier)
    lap("lifecycle_matrix")
    total += sanitized_other_drivers(ev, unknown, tier)
    lap("sanitized_other_drivers")
    total += threads_part(ev, unknown, tier)
    lap("threads")
    ev.cov["evaluations"] = total
    ev.cov["distinct_nontrivial"] = ev.cov["states"]
    ev.cov["exhaustive"] = True
    ev.cov["rule"] = ("TLC BFS of Lifecycle.tla: every interleaving of construct / mutate / copy-construct / copy-assign (incl. self) / "
                      "move-construct / move-assign / swap / destroy / serialize / deserialize with byte-length perturbations / text round "
                      "trip over 2 slots x all filtered complexes on 2 vertices and 3 slots x a 1-vertex payload; every transition and random "
                      "walks replayed on 8 Simplex_tree option sets under ASan+UBSan, ALL live slots re-projected after every step (aliasing "
                      "shows as a change of a slot the action did not name); TLC BFS of MatrixLifecycle.tla (2 slots x cell complexes with <= 4 "
                      "cells on 2 vertices over Z3 / Z2 with vine swaps x provenance of each object: new / copy of a live source / copy whose "
                      "source is gone / moved), every transition and random walks replayed on 8-12 Matrix option sets per column type under "
                      "ASan+UBSan with the matrix identities re-checked in every live slot after every step; the replay drivers of the simplex-tree and matrix models rebuilt "
                      "with ASan+UBSan; thread variant under TSan")
    ev.assumptions = ["memory safety and UB are decided by the sanitizers on the executions the specifications generate, not by TLA+",
                      "the filtration cache is refreshed by the driver before operator<< / persistence, as the documentation requires",
                      "a deserialize call with a wrong length runs in a forked child; its target is only destroyed afterwards"]
    fnd.report(PROP)
    if unknown:
        ev.violations = len(unknown)
        p = vf.save_replay(PROP, "deviations", unknown[:50])
        ev.write()
        vf.violation(PROP, p)
        return 1
    ev.write()
    return 0
