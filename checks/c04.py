"""C04 - flag (clique) expansions build exactly the clique complex, by every route."""
import vf
from checks import st_common

PROP = "C04"
MATCHERS = {}


def main(tier):
    ev = vf.Evidence(PROP, tier)
    fnd = vf.Findings()
    bins = st_common.build_replay()
    parts = [("flag_v3_vals2", "MC_SimplexTree_flag3.cfg", 3, 2), ("flag_v4_val1", "MC_SimplexTree_flag4.cfg", 4, 3),
             # a candidate set with >= 3 members of which >= 2 are blocked needs 5 vertices: nearly complete graphs on 5
             # vertices, one expansion with at most 2 (thorough 3) blocked simplices of any dimension
             ("blockers_v5", "MC_SimplexTree_blk5_q.cfg" if tier == "quick" else "MC_SimplexTree_blk5.cfg", 5, 4)]
    unknown = []
    total = 0
    ops = {}
    for part, cfg, nv, maxdim in parts:
        r, g, summ, devs, crashes = st_common.run_model(ev, part, cfg, bins, nv, maxdim,
                                                        gap_edges_per_state=10 if tier == "quick" else None,
                                                        max_edges_per_state=None if tier == "thorough" or part != "flag_v4_val1" else 40)
        if r.violation:
            p = vf.save_replay(PROP, part + "_model", {"tlc": r.violation})
            vf.violation(PROP, p)
            ev.violations += 1
            ev.write()
            return 1
        for c in crashes:
            unknown.append({"part": part, **c})
        for d in devs:
            if fnd.match(PROP, d, MATCHERS) is None:
                unknown.append({"part": part, **d})
        total += sum(s["behaviours"] for s in summ.values())
        for u in range(len(g.out)):
            for a, v in g.out[u]:
                ops[a["op"]] = ops.get(a["op"], 0) + 1
        ex = next(((a, v) for u in range(len(g.out)) for a, v in g.out[u] if a["op"] == "edge_as_flag" and len(a["added_set"]) > 2), None)
        if ex:
            ev.sample({"part": part, "act": ex[0], "to_k": g.obs[ex[1]]["k_set"]}, 3)
    ev.parts["transitions_by_action"] = ops
    # ---- beyond the TLC bounds: graphs on 80-140 vertices with hubs, every route against brute-force clique enumeration
    import os
    work = os.path.join(vf.BUILD, "work", "%s_big_%d" % (PROP, os.getpid()))
    os.makedirs(work, exist_ok=True)
    bbin = vf.build_many([dict(name="st_bigflag", src="st_bigflag.cpp", defines=[])], 1)[0]
    bout = os.path.join(work, "big.ndjson")
    ngraphs = 6 if tier == "quick" else 60
    _, died = vf.run_recorder([bbin, bout, str(vf.seed()), str(ngraphs)], timeout=1500)
    recs = vf.read_ndjson(bout, tolerant=True) if os.path.exists(bout) else []
    if died and not any(r.get("kind") == "summary" for r in recs) and not any(r.get("kind") in ("crash", "deviation") for r in recs):
        unknown.append({"part": "big_graphs", **died})
    for r in recs:
        if r.get("kind") in ("crash", "deviation"):
            unknown.append({"part": "big_graphs", **r})
        elif r.get("kind") == "summary":
            ev.parts["big_graphs"] = {k: r[k] for k in ("graphs", "routes", "simplices")}
            ev.parts["big_graphs"]["oracle"] = "brute-force clique enumeration in the harness (CliqueComplex / FlagValue of SimplexTree.tla); 5 routes + the reported count"
            total += r["routes"]
    ev.cov["evaluations"] = total
    ev.cov["distinct_nontrivial"] = ev.cov["states"]
    ev.cov["exhaustive"] = True
    ev.cov["rule"] = ("TLC BFS of SimplexTree.tla in flag mode: every weighted graph on 3 vertices x 2 values / 4 vertices x 1 value "
                      "reached by insert_graph, by insert_edge_as_flag in every order (interleaved with remove_maximal_simplex, "
                      "make_filtration_non_decreasing, prune_above_dimension), expanded by expansion(d), by expansion_with_blockers "
                      "for EVERY set of blocked simplices, and built by Rips_complex from every distance matrix / threshold / "
                      "dimension in both input forms; nearly complete graphs on 5 vertices expanded with every set of at most 2 (thorough 3) "
                      "blocked simplices; in-model invariants: the complex is the clique complex of its graph and after "
                      "monotonisation every simplex has the largest value of its vertices and edges; every transition replayed on "
                      "every option set that allows the operation, reported added simplices compared as sets")
    ev.assumptions = ["bounded: 3 vertices x values {1,2}, 4 vertices x value {1}, 5 vertices only for expansion_with_blockers on K5 minus at most one edge", "insert_edge_as_flag only on flag complexes "
                      "(documented), expansion only on complexes of dimension <= 1 with monotone values"]
    fnd.report(PROP)
    if unknown:
        ev.violations = len(unknown)
        p = vf.save_replay(PROP, "deviations", unknown[:50])
        ev.write()
        vf.violation(PROP, p)
        return 1
    ev.write()
    return 0
