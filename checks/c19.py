"""C19 - the sparse Rips filtration stays within its approximation guarantee.

 1. MC_SparseRips (TLC): every integer metric of the bounded scope; in-model theorems: for EVERY greedy farthest-point
    ordering the construction of Sparse_rips_complex.h is valid, a filtered subcomplex of the Rips filtration with larger
    values and interleaved with it as documented (matching of the persistence diagrams found by TLC); one CASE per metric
    with the set of complexes the construction may return.
 2. sprips_cases: every case on the real Sparse_rips_complex (distance matrix / points + functor, several runs because the
    starting point is random inside the library): the returned complex must be a member of the set.
 3. sprips_record + Trace_SparseRips: random metrics on 5-8 points, the recorded complexes are judged by TLC (validity,
    subcomplex, interleaving of the recomputed diagrams, membership in the construction).
 4. self-test of the binding: one corrupted expectation and one corrupted recorded event must be rejected.
"""
import copy
import glob
import json
import os
from concurrent.futures import ThreadPoolExecutor

import vf

PROP = "C19"
MATCHERS = {}
XSS = ("-Xss512m",)
BIG = 1 << 30

# (part name, cfg, description of the scope)
QUICK = [
    ("n4_eps34", "MC_SparseRips_q34.cfg", "4 points, distances 3*{1..4}, one metric per relabelling class; eps=3/4; mini/maxi"),
    ("n4_eps12", "MC_SparseRips_q12.cfg", "4 points, distances {1,2,5,9}, per class; eps in {1/2,1/4,1,2}; mini/maxi"),
    ("n5_eps12", "MC_SparseRips_q5.cfg", "5 points, distances {1,6,9}, per class; eps=1/2"),
]
THOROUGH = [
    ("n4_eps34_all", "MC_SparseRips_t34.cfg", "4 points, distances 3*{1..4}, EVERY labelled metric; eps=3/4; mini/maxi"),
    ("n4_eps12_wide", "MC_SparseRips_t12.cfg", "4 points, distances {1,2,3,5,7,9}, per class; eps in {1/2,1/4,1,2}; mini/maxi"),
    ("n5_eps12", "MC_SparseRips_t5a.cfg", "5 points, distances {1,5,6,9}, per class; eps=1/2"),
    ("n5_eps34", "MC_SparseRips_t5b.cfg", "5 points, distances 3*{1..4}, per class; eps=3/4"),
]


def _fail(ev, name, obj):
    ev.violations += 1
    p = vf.save_replay(PROP, name, obj)
    ev.write()
    vf.violation(PROP, p)
    return 1


def _validate(path, i, timeout):
    r = vf.tlc("Trace_SparseRips", "Trace_SparseRips.cfg", workers=1, env={"TRACE": path}, timeout=timeout,
               tag="Trace_SparseRips-%d-%d" % (os.getpid(), i), allow_violation=True, heap="4g", extra_java=XSS)
    info, rejects = None, []
    for t, o in vf.emits(r.outfile, ("TRACE", "REJECT")):
        if t == "TRACE":
            info = o
        else:
            rejects.append(o)
    if info is None:
        raise vf.Infra("Trace_SparseRips printed no verdict for %s:\n%s" % (path, r.text[-3000:]))
    info.update({"file": path, "rejects": rejects, "wall": r.wall, "generated": r.generated})
    return info


def main(tier):
    ev = vf.Evidence(PROP, tier)
    fnd = vf.Findings()
    unknown = []
    work = os.path.join(vf.BUILD, "work", "%s_%d" % (PROP, os.getpid()))
    os.makedirs(work, exist_ok=True)
    b_cases, b_rec = vf.build_many([dict(name="sprips_cases", src="sprips_cases.cpp"),
                                    dict(name="sprips_record", src="sprips_record.cpp")], par=2)
    reps = 5 if tier == "quick" else 8
    evaluations = 0
    nontrivial = 0
    first_cases = None
    # ------------------------------------------------------------------ spec -> code
    for part, cfg, scope in (QUICK if tier == "quick" else THOROUGH):
        r = vf.tlc("MC_SparseRips", cfg, workers=4, timeout=2400, heap="8g", extra_java=XSS)
        if r.violation:   # an in-model theorem fails: the documented guarantee does not hold for the documented construction
            return _fail(ev, "theorem_" + part, {"part": part, "cfg": cfg, "tlc": r.violation})
        cases_path = os.path.join(work, part + ".ndjson")
        n = 0
        with open(cases_path, "w") as f:
            for tag, o in vf.emits(r.outfile, ("CASE",)):
                if "n" not in o:    # constant-level EmitCase of the instantiated MC_PersistentCohomology (evaluated once by TLC)
                    continue
                f.write(json.dumps(o, separators=(",", ":")) + "\n")
                if n == 11:
                    e0 = sorted(o["expect_set"], key=lambda e: (-len(e["cx_set"]), e["dmax"]))[0]
                    ev.sample({"case_metric": o["d_set"], "greedy_radius_assignments": o["nlams"],
                               "eps": "%d/%d" % (e0["p"], e0["q"]), "dim_max": e0["dmax"], "allowed_complexes": e0["cx_set"]}, 2)
                n += 1
        if first_cases is None:
            first_cases = cases_path
        os.remove(r.outfile)
        if n == 0:
            raise vf.Infra("no CASE emitted by %s" % cfg)
        ev.add_tlc(part, r, {"cases": n, "scope": scope})
        shards = 4
        outs = [os.path.join(work, "%s_out_%d.ndjson" % (part, i)) for i in range(shards)]
        vf.run_parallel([[b_cases, cases_path, outs[i], str(i), str(shards), str(reps)] for i in range(shards)], par=4,
                        ok_codes=(0, 3))
        for o in outs:
            recs = vf.read_ndjson(o)
            if not any(rec.get("kind") == "summary" for rec in recs) and not any(rec.get("kind") == "crash" for rec in recs):
                raise vf.Infra("harness wrote no summary: %s" % o)
            for rec in recs:
                if rec.get("kind") == "summary":
                    evaluations += rec["steps"]
                    nontrivial += rec["parameter_sets_with_output_differing_from_rips"]
                    for k in ("steps", "parameter_sets", "parameter_sets_with_output_differing_from_rips", "allowed_complexes",
                              "allowed_complexes_returned", "parameter_sets_with_several_allowed", "of_which_several_returned"):
                        ev.parts[part][k] = ev.parts[part].get(k, 0) + rec[k]
                    if rec["deviations"] > 2000:
                        unknown.append({"part": part, "kind": "deviations_dropped", "count": rec["deviations"]})
                elif rec.get("kind") in ("deviation", "crash"):
                    if fnd.match(PROP, rec, MATCHERS) is None:
                        unknown.append({"part": part, **rec})
    # ------------------------------------------------------------------ self-test: a corrupted expectation is reported
    st_path = os.path.join(work, "selftest_cases.ndjson")
    with open(first_cases) as f:
        c0 = json.loads(f.readline())
    for e in c0["expect_set"]:
        for cx in e["cx_set"]:
            for s in cx:
                if len(s["s"]) == 2:
                    s["f"] += 1
                    break
    with open(st_path, "w") as f:
        f.write(json.dumps(c0) + "\n")
    st_out = os.path.join(work, "selftest_out.ndjson")
    vf.run([b_cases, st_path, st_out, "0", "1", "1"], ok_codes=(0, 3))
    if not any(rec.get("kind") == "deviation" and rec.get("op") == "sparse" for rec in vf.read_ndjson(st_out)):
        raise vf.Infra("self-test: a corrupted expected complex was not reported by sprips_cases")
    # ------------------------------------------------------------------ code -> spec
    tdir = os.path.join(work, "traces")
    os.makedirs(tdir, exist_ok=True)
    nfiles = 4 if tier == "quick" else 8
    vf.run([b_rec, tdir, str(vf.seed()), "150" if tier == "quick" else "4000", str(nfiles)], ok_codes=(0, 3), timeout=300)
    summ = vf.read_ndjson(os.path.join(tdir, "summary.json"))
    for rec in summ:
        if rec.get("kind") == "crash":
            unknown.append({"part": "traces", **rec})
    rsum = next((rec for rec in summ if rec.get("kind") == "summary"), None)
    if rsum is None and not unknown:
        raise vf.Infra("sprips_record wrote no summary")
    files = sorted(glob.glob(os.path.join(tdir, "sprips_*.ndjson")))
    # events the harness could not read exactly are deviations of their own
    for fpath in files:
        for i, e in enumerate(vf.read_ndjson(fpath)):
            if e.get("problems"):
                unknown.append({"part": "traces", "kind": "deviation", "op": "sparse", "file": fpath, "line": i + 1,
                                "problems": e["problems"], "event": {k: e[k] for k in ("n", "d_set", "p", "q", "mini", "maxi", "dmax")}})
    # self-test event: a recorded complex with one filtration value changed must be rejected
    stt = os.path.join(tdir, "selftest.ndjson")
    good = None
    for e in vf.read_ndjson(files[0]):
        if e["p"] < e["q"] and not e.get("problems"):
            good = e
            break
    if good is not None:
        bad = copy.deepcopy(good)
        for s in bad["k_set"]:
            if len(s["s"]) == 2:
                s["f"] += 1
                break
        with open(stt, "w") as f:
            f.write(json.dumps(bad) + "\n")
    paths = files + ([stt] if good is not None else [])
    with ThreadPoolExecutor(4) as ex:
        res = list(ex.map(lambda a: _validate(a[1], a[0], 2400), enumerate(paths)))
    nev = 0
    for rr in res:
        if rr["file"] == stt:
            if [x["line"] for x in rr["rejects"]] != [1] or rr["matched"] != 1 or rr["accepted"]:
                raise vf.Infra("self-test: Trace_SparseRips did not reject the corrupted event: %s" % rr)
            continue
        nev += rr["matched"]
        ls = None
        if rr["matched"] != rr["len"]:
            unknown.append({"part": "traces", "kind": "trace_not_read_to_the_end", "file": rr["file"], "matched": rr["matched"], "len": rr["len"]})
        for rej in rr["rejects"]:
            ls = ls or open(rr["file"]).read().splitlines()
            e = json.loads(ls[rej["line"] - 1])
            dev = {"part": "traces", "kind": "trace_rejected", "op": "sparse", "file": rr["file"], "line": rej["line"],
                   "verdict": rej["verdict"], "event": e}
            if fnd.match(PROP, dev, MATCHERS) is None:
                unknown.append(dev)
    ev.cov["traces_validated_against_impl"] += len(files)
    ev.parts["traces"] = {"files": len(files), "events_judged": nev, "spec": "Trace_SparseRips.tla", "recorder": rsum,
                          "wall_s": round(max(rr["wall"] for rr in res), 1)}
    ev.parts["selftest"] = {"corrupted_expectation_reported": True, "corrupted_event_rejected": good is not None}
    if rsum:
        evaluations += rsum["runs"]
        nontrivial += rsum["outputs_differing_from_rips"]
        with open(files[0]) as f:
            e = json.loads(f.readline())
        ev.sample({"trace_event": {k: e[k] for k in ("n", "family", "p", "q", "mini", "maxi", "dmax", "form", "runs")},
                   "d_set": e["d_set"], "sparse_simplices": len(e["k_set"]), "rips_simplices": len(e["rips_set"])}, 3)
    ev.cov["evaluations"] = evaluations
    ev.cov["distinct_nontrivial"] = nontrivial
    ev.cov["exhaustive"] = True
    ev.cov["rule"] = ("cases: every integer metric of the listed scopes (see parts.*.scope; triangle inequality, distinct points) x every "
                      "parameter set (eps dyadic with exact arithmetic, eps >= 1, mini/maxi) x dim_max; TLC proves validity, "
                      "subcomplex-with-larger-values and the diagram interleaving (one-sided matching r <= s <= r/(1-eps), unmatched "
                      "death <= birth/(1-eps); also the two-sided bottleneck reading) for EVERY greedy ordering and emits the set of "
                      "complexes the construction may return; the real class is run %d times per constructor form (random start inside "
                      "the library) and each output must be a member; traces: random metrics on 5-8 points (L1 point clouds, graph "
                      "metrics, two-level cluster metrics), outputs judged by TLC with the same operators; "
                      "distinct_nontrivial = (metric, parameters, dim_max) whose real output differs from the Rips complex" % reps)
    ev.assumptions = ["exact lattice: integer distances, eps in {1/2, 1/4, 3/4 (distances multiples of 3), 1, 2}: every floating point "
                      "operation of the header is exact; inputs off the lattice are not judged",
                      "the ordering chosen inside the library is not observable through the public API: conformance is membership in the "
                      "set of complexes over all greedy orderings",
                      "diagrams over Z2 by the column reduction of Persistence.tla; dimensions < dim_max only (a skeleton has spurious "
                      "top-dimensional classes)",
                      "bounded: exhaustive on 4-5 points over the listed distance sets; 5-8 points sampled"]
    fnd.report(PROP)
    if unknown:
        ev.violations = len(unknown)
        p = vf.save_replay(PROP, "deviations", unknown[:50])
        ev.write()
        vf.violation(PROP, p)
        return 1
    ev.write()
    return 0
