"""C02 - persistent cohomology returns the true persistence pairs for every field."""
import glob
import json
import os
import vf

PROP = "C02"
def _m_double_kill(dev):
    a = dev.get("act", {})
    return dev.get("kind") == "engine_crash" and a.get("engine") == "Multi_field" and a.get("name", "").startswith("cone_")


MATCHERS = {"C02-multifield-kill-in-two-fields": _m_double_kill}
LIBS = ["-lgmpxx", "-lgmp"]


def main(tier):
    ev = vf.Evidence(PROP, tier)
    fnd = vf.Findings()
    unknown = []
    # in-model theorem: definitional pairing = column reduction (the oracle of everything below)
    for cfg in ["MC_Persistence_z2.cfg", "MC_Persistence_z3.cfg"]:
        r = vf.tlc("MC_Persistence", cfg, workers=6, timeout=1500)
        if r.violation:
            p = vf.save_replay(PROP, "theorem_" + cfg, {"tlc": r.violation})
            vf.violation(PROP, p)
            ev.violations += 1
            ev.write()
            return 1
        ev.add_tlc("theorem_def_eq_alg_" + cfg.replace(".cfg", ""), r)
    b_cases = vf.build("pc_cases", "pc_cases.cpp", libs=LIBS)
    b_rec = vf.build("pc_record", "pc_record.cpp", libs=LIBS)
    work = os.path.join(vf.BUILD, "work", "%s_%d" % (PROP, os.getpid()))
    os.makedirs(work, exist_ok=True)
    total = 0
    # spec -> code: every monotone filtered complex of the bounded model
    for part, cfg in ([("cases_v3", "MC_PersistentCohomology_v3.cfg")] +
                      ([("cases_v4", "MC_PersistentCohomology_v4.cfg")] if tier == "thorough" else [])):
        r = vf.tlc("MC_PersistentCohomology", cfg, workers=4, timeout=2400, heap="12g")
        if r.violation:
            p = vf.save_replay(PROP, part + "_model", {"tlc": r.violation})
            vf.violation(PROP, p)
            ev.violations += 1
            ev.write()
            return 1
        cases_path = os.path.join(work, part + ".ndjson")
        n = 0
        with open(cases_path, "w") as f:
            for tag, o in vf.emits(r.outfile, ("CASE",)):
                f.write(json.dumps(o, separators=(",", ":")) + "\n")
                if n == 200:
                    ev.sample({"case_complex": o["k_set"], "expected_for_first_parameters": sorted(o["expect_set"], key=lambda e: (e["p"], e["minlen"], e["flag"]))[0]}, 2)
                n += 1
        os.remove(r.outfile)
        ev.add_tlc(part, r, {"cases": n})
        shards = 8
        outs = [os.path.join(work, "%s_out_%d.ndjson" % (part, i)) for i in range(shards)]
        vf.run_parallel([[b_cases, cases_path, outs[i], str(i), str(shards)] for i in range(shards)], ok_codes=(0, 3))
        for o in outs:
            for rec in vf.read_ndjson(o):
                if rec.get("kind") == "summary":
                    total += rec["steps"]
                    ev.parts[part].setdefault("engine_runs", 0)
                    ev.parts[part]["engine_runs"] += rec["steps"]
                elif rec.get("kind") in ("deviation", "crash"):
                    if fnd.match(PROP, rec, MATCHERS) is None:
                        unknown.append({"part": part, **rec})
    # code -> spec: torsion complexes, large primes, multi-field, random complexes
    tdir = os.path.join(work, "traces")
    os.makedirs(tdir, exist_ok=True)
    vf.run([b_rec, tdir, str(vf.seed()), "40" if tier == "quick" else "400", "36" if tier == "quick" else "240"], ok_codes=(0, 3))
    # crashes of the engine (recorded by the driver's parent process) are deviations of their own; the other events
    # are validated by TLC
    for fpath in sorted(glob.glob(os.path.join(tdir, "*.ndjson"))):
        keep = []
        for line in open(fpath).read().splitlines():
            if '"op":"crash"' in line:
                ev_c = json.loads(line)
                dev = {"kind": "engine_crash", "act": ev_c, "diffs": [{"path": "crash", "exp": None, "got": ev_c.get("signal")}]}
                if fnd.match(PROP, dev, MATCHERS) is None:
                    unknown.append(dev)
            else:
                keep.append(line)
        with open(fpath, "w") as f:
            f.write("\n".join(keep) + "\n")
    # shard the random trace for parallel validation
    nsh = 6
    for stem in ("pc_random", "pc_dense"):
        big = os.path.join(tdir, stem + ".ndjson")
        if not os.path.exists(big):
            continue
        lines = open(big).read().splitlines()
        os.remove(big)
        for i in range(nsh):
            if lines[i::nsh]:
                with open(os.path.join(tdir, "%s_%d.ndjson" % (stem, i)), "w") as f:
                    f.write("\n".join(lines[i::nsh]) + "\n")
    files = sorted(glob.glob(os.path.join(tdir, "*.ndjson")))
    res = vf.validate_traces("Trace_PC", "Trace_PC.cfg", files, par=7, extra_java=("-Xss512m",), timeout=2400)
    nev = 0
    for rr in res:
        nev += rr["matched"]
        if not rr["accepted"]:
            ls = open(rr["file"]).read().splitlines()
            bad = json.loads(ls[rr["matched"]]) if rr["matched"] < len(ls) else None
            unknown.append({"kind": "trace_rejected", "file": rr["file"], "line": rr["matched"] + 1, "event": bad})
    ev.cov["traces_validated_against_impl"] += len(files)
    ev.parts["traces"] = {"files": len(files), "events_matched": nev,
                          "content": "RP^2 (6 vertices), Klein bottle (9 vertices), a 7-vertex 2-complex, random complexes on 5-8 vertices with "
                                     "ties; complete graphs on 11-13 vertices with 90-120 random triangles over Z3/Z5/Z7 (many open classes at once); p in {2,3,5,7,11,46337}; multi-field ranges [2,3] [2,5] [3,7] [2,11]; min_interval_length -1/0/1; "
                                     "both values of persistence_dim_max", "spec": "Trace_PC.tla"}
    ev.sample({"trace_event_fields": "op, p, minlen, flag, dimK, cells[dim,val,bd], pairs[dim,b,d]"}, 3)
    ev.cov["evaluations"] = total + nev
    ev.cov["distinct_nontrivial"] = ev.cov["states"]
    ev.cov["exhaustive"] = True
    ev.cov["rule"] = ("cases: every monotone value assignment (ties allowed) of every complex on 3 vertices x 3 values (thorough: 4 vertices "
                      "x 2 values), each run with p in {2,3}, min_interval_length in {-1,0,1}, persistence_dim_max in {false,true} on "
                      "Simplex_tree (4 option sets), on the Hasse_complex built from it and through Multi_field [2,3]; diagram, Betti, "
                      "persistent Betti numbers and intervals_in_dimension compared with the expectation derived by TLC; traces: the "
                      "exposed cell complex and the reported pairs are logged and re-derived by the column reduction in TLC")
    ev.assumptions = ["oracle = column reduction of Persistence.tla, proved equal to the definitional pairing on the bounded model",
                      "bounded: cases on <= 4 vertices; traces <= 9 vertices; primes <= 46337"]
    fnd.report(PROP)
    if unknown:
        ev.violations = len(unknown)
        p = vf.save_replay(PROP, "deviations", unknown[:50])
        ev.write()
        vf.violation(PROP, p)
        return 1
    ev.write()
    return 0
