"""C13 - Cubical complexes (Bitmap_cubical_complex over the plain and the periodic base) are valid filtered cell
complexes with correct incidences, and their persistence over Z_p is that of the specified cell complex.

"cases" style.  spec -> code: MC_Cubical (TLC) enumerates every shape with <= 3 directions and sides <= 3 (a side of
0 top cells = one layer of vertices, vertex convention only; periodic sides 2 and 3), every periodic mask, both
classes, both input conventions and value assignments over {0,1,2,+inf} (all of them up to ExhMax inputs, seeded
samples beyond); it checks the in-model theorems of Cubical.tla (index bijection, geometric faces, alternating
documented incidences, boundary of boundary = 0, boundary/coboundary converse, order total / monotone / faces
first, valid chain complex, Betti numbers of the product of circles and intervals) and prints for every case the
structure of every cell, the values, the filtration order, the persistence diagram over each prime (column
reduction of Persistence.tla on the SPECIFIED complex) and the Betti numbers.  harness/cub_cases runs the real
classes on every case.  code -> spec: harness/cub_record builds random larger complexes (<= 4 directions, sides
<= 5) and Trace_Cubical.tla recomputes everything from the constructor arguments."""
import glob
import hashlib
import json
import os
import shutil
from concurrent.futures import ThreadPoolExecutor

import vf

PROP = "C13"
MODULE = "MC_Cubical"
PAR = 4  # shared machine: at most 4 TLC processes / compiles / harness shards at once
JAVA = ("-Xss64m",)

# (part, cfg, shards)
QUICK_MODELS = [("shape", "MC_Cubical_shape.cfg", 4), ("vals", "MC_Cubical_vals_q.cfg", 4)]
THOROUGH_MODELS = [("shape", "MC_Cubical_shape.cfg", 4), ("vals", "MC_Cubical_vals_t.cfg", 8),
                   ("vals6", "MC_Cubical_vals_t6.cfg", 8)]

MATCHERS = {}


def run_models(models, timeout):
    jobs = [(part, cfg, i, n) for part, cfg, n in models for i in range(n)]

    def one(j):
        part, cfg, i, n = j
        env = {"SHARD": str(i), "NSHARDS": str(n), "SEED": str(vf.seed() % 8191)}
        r = vf.tlc(MODULE, cfg, workers=1, env=env, timeout=timeout, heap="3g", extra_java=JAVA,
                   tag="cub-%s-%d-%d" % (part, i, os.getpid()))
        return (part, i), r
    # the value models are the long ones: start them first
    order = sorted(jobs, key=lambda j: 0 if j[0] != "shape" else 1)
    with ThreadPoolExecutor(PAR) as ex:
        return dict(ex.map(one, order))


def cleanup_ttrace():
    for p in glob.glob(os.path.join(vf.SPECS, "*Cubical*_TTrace_*")):
        try:
            os.remove(p)
        except OSError:
            pass


def _short(o):
    s = json.dumps(o, separators=(",", ":"))
    if len(s) < 900:
        return o
    keep = {k: o[k] for k in ("kind", "op", "n", "per", "var", "conv", "dims", "vals") if k in o}
    keep["truncated"] = s[:400]
    return keep


def nontrivial(o):
    """a valued case is non trivial when its input has at least two distinct values or a periodic direction"""
    return len(set(o["vals"])) >= 2 or any(o["per"])


def main(tier):
    ev = vf.Evidence(PROP, tier)
    fnd = vf.Findings()
    work = os.path.join(vf.BUILD, "cub", "%s-%d" % (tier, os.getpid()))
    os.makedirs(work, exist_ok=True)
    bin_cases, bin_record = vf.build_many([dict(name="cub_cases", src="cub_cases.cpp"),
                                           dict(name="cub_record", src="cub_record.cpp")], par=2)
    models = QUICK_MODELS if tier == "quick" else THOROUGH_MODELS
    results = run_models(models, 700 if tier == "quick" else 1150)

    # ---- the bounded model: theorems, then every case on the real code
    cases_path = os.path.join(work, "cases.ndjson")
    nshapes = nvals = 0
    distinct = set()
    with open(cases_path, "w") as f:
        for part, cfg, n in models:       # the shape cases first: the harness checks every valued case against its shape
            tot = {"distinct": 0, "generated": 0, "wall": 0.0, "cases": 0}
            for i in range(n):
                r = results[(part, i)]
                if r.violation or not r.ok:
                    # an in-model theorem of the specification failed: no code is involved, the model is broken
                    raise vf.Infra("in-model theorem violated in %s/%s shard %d:\n%s" %
                                   (MODULE, cfg, i, (r.violation or r.text)[-3000:]))
                k = 0
                for tag, o in vf.emits(r.outfile, ("CASE",)):
                    k += 1
                    if o["kind"] == "shape":
                        nshapes += 1
                    else:
                        nvals += 1
                        if nontrivial(o):
                            distinct.add(hashlib.md5(json.dumps([o["n"], o["per"], o["var"], o["conv"], o["vals"]]).encode()).digest())
                        if nvals in (5, 700, 2500):
                            ev.sample({"part": part, "case": _short(o)}, 5)
                    f.write(json.dumps(o, separators=(",", ":")) + "\n")
                ev.add_tlc("%s[%d/%d]" % (part, i, n), r, {"cases": k})
                tot["cases"] += k
            if tot["cases"] == 0:
                raise vf.Infra("model %s emitted no case" % cfg)
    outs = [os.path.join(work, "cases_out_%d.ndjson" % i) for i in range(PAR)]
    vf.run_parallel([[bin_cases, cases_path, outs[i], str(i), str(PAR)] for i in range(PAR)], par=PAR,
                    timeout=900, ok_codes=(0, 3))
    unknown = []
    keys = ("cases", "evaluations", "deviations", "cells", "boundary_lists", "boundary_lists_in_spec_order",
            "coboundary_lists_in_spec_order", "persistence_runs")
    summ = {k: 0 for k in keys}
    nsumm = 0
    for o in outs:
        for rec in vf.read_ndjson(o):
            k = rec.get("kind")
            if k == "summary":
                nsumm += 1
                for key in keys:
                    summ[key] += rec[key]
            elif k == "deviation":
                if fnd.match(PROP, rec, MATCHERS) is None:
                    unknown.append(rec)
            elif k == "crash":
                unknown.append(rec)
    if nsumm != PAR and not unknown:
        raise vf.Infra("cub_cases: %d of %d shards finished" % (nsumm, PAR))
    if summ["cases"] != nvals and not unknown:
        raise vf.Infra("cub_cases ran %d of %d cases" % (summ["cases"], nvals))
    ev.parts["replay"] = dict(summ, shapes=nshapes)

    # ---- recorded executions validated by the trace specification
    nfiles, ncpx, maxcells = (4, 9, 420) if tier == "quick" else (8, 14, 1500)
    tdir = os.path.join(work, "traces")
    os.makedirs(tdir, exist_ok=True)
    paths = [os.path.join(tdir, "t%d.ndjson" % i) for i in range(nfiles)]
    recs = vf.run_parallel([[bin_record, paths[i], str(vf.seed() * 1000 + i), str(ncpx), str(maxcells)]
                            for i in range(nfiles)], par=PAR, timeout=600, ok_codes=(0, 3))
    rec_cells = 0
    for i, p in enumerate(recs):
        if p.returncode == 3:
            unknown.append({"kind": "crash", "where": "cub_record", "file": paths[i]})
            continue
        rec_cells += json.loads(p.stdout.decode().strip().splitlines()[-1])["cells"]
    infos = vf.validate_traces("Trace_Cubical", "Trace_Cubical.cfg", paths, par=PAR, timeout=1100)
    nevents = 0
    ev_hash = set()
    for info in infos:
        nevents += info["matched"]
        if not info["accepted"] and info.get("truncated"):
            # the recorder died in the middle of an event: the complete events were accepted, the execution was not
            unknown.append({"kind": "trace_truncated", "file": info["file"], "events_before_the_cut": info["matched"]})
        elif not info["accepted"]:
            # a rejection is reported only if a second run rejects at the same line
            again = vf.validate_trace("Trace_Cubical", "Trace_Cubical.cfg", info["file"],
                                      tag="cub-confirm-%d" % os.getpid(), timeout=1100)
            if again["accepted"] or again["matched"] != info["matched"]:
                raise vf.Infra("unstable trace verdict on %s: %s then %s" % (info["file"], info, again))
            lines = open(info["file"]).read().splitlines()
            bad = json.loads(lines[info["matched"]]) if info["matched"] < len(lines) else None
            if bad is not None:
                bad = {k: bad[k] for k in bad if k != "obs"}
            unknown.append({"kind": "trace_rejected", "file": info["file"], "line": info["matched"] + 1, "event": bad})
        ev.cov["transitions"] += info["generated"]
    cleanup_ttrace()
    for p in paths:
        with open(p) as f:
            for k, line in enumerate(f):
                ev_hash.add(hashlib.md5(line.encode()).digest())
                if k == 2 and p == paths[0]:
                    e = json.loads(line)
                    ev.sample({"part": "trace", "event": {k2: e[k2] for k2 in e if k2 != "obs"},
                               "cells": e.get("obs", {}).get("N")}, 8)
    ev.cov["traces_validated_against_impl"] = sum(1 for i in infos if i["accepted"])
    ev.parts["traces"] = {"files": nfiles, "complexes": nevents, "distinct_complexes": len(ev_hash), "cells": rec_cells}

    ev.cov["evaluations"] = summ["evaluations"] + nevents
    ev.cov["distinct_nontrivial"] = len(distinct) + len(ev_hash)
    ev.cov["exhaustive"] = True
    ev.cov["rule"] = ("every shape with <= 3 directions, sides 0..3 top cells (0: vertex input only; periodic sides 2, 3), every "
                      "periodic mask, both classes (plain / periodic base), both input conventions; value assignments over "
                      "{0,1,2,+inf}: all of them up to %s inputs%s, seeded samples for larger shapes; per case every cell's "
                      "dimension, value, boundary (faces as a multiset, documented incidences, their alternation along the "
                      "list, dd = 0 with the alternating signs), coboundary (set), the ranges, the filtration order (exact) and the persistence diagram + "
                      "Betti numbers over each prime with and without persistence_dim_max, expected values computed by TLC "
                      "from Cubical.tla / Persistence.tla; plus recorded random complexes (<= 4 directions, sides <= 5, <= %d "
                      "cells) accepted by Trace_Cubical.tla.  distinct = valued cases with >= 2 distinct input values or a "
                      "periodic direction + distinct recorded complexes"
                      % ((("3", "") if tier == "quick" else ("4", " (and all assignments over {0,1,+inf} for 5-6 inputs)")) + (maxcells,)))
    ev.assumptions = [
        "the handle of a cell is its bitmap position (part of the API); input lists in Fortran order (first direction fastest)",
        "periodic sides >= 2 (a periodic side of 1 identifies the two faces of a cell: excluded); a side of 0 top cells only "
        "with vertex input",
        "order of the boundary list: only what is documented / stated is required (faces each once, the documented incidences "
        "alternate along the list, the lists with alternating signs compose to zero); the order of the pinned tree is "
        "recorded as a statistic (boundary_lists_in_spec_order); coboundary compared as a set",
        "diagram compared as a multiset of (dimension, birth value, death value); a finite pair is reported iff death value "
        "> birth value (+inf is not > +inf), an essential class always; cell pairings are not compared",
        "values are small integers or +inf (exact in double); -inf and NaN inputs are not explored",
    ]
    fnd.report(PROP)
    if unknown:
        ev.violations = len(unknown)
        p = vf.save_replay(PROP, "deviations", unknown[:50])
        ev.write()
        vf.violation(PROP, p)
        return 1
    ev.write()
    # nothing to replay: drop the case file, the traces and the TLC outputs of this run
    shutil.rmtree(work, ignore_errors=True)
    for part, cfg, n in models:
        for i in range(n):
            shutil.rmtree(os.path.join(vf.BUILD, "tlc", "cub-%s-%d-%d" % (part, i, os.getpid())), ignore_errors=True)
    for i in range(nfiles):
        shutil.rmtree(os.path.join(vf.BUILD, "tlc", "Trace_Cubical-%d-%d" % (os.getpid(), i)), ignore_errors=True)
    return 0
