"""Common layer of the GUDHI model-based verification framework.

 * tlc(): run TLC (BFS or simulation) on a bounded model, under a timeout,
   collect the JSON lines the model emits (STATE / EDGE / CASE ...), the state
   counts and the per-action coverage; exit-code mapping (model error => Infra).
 * StateGraph: edge list -> BFS tree -> path cover (one behaviour per edge).
 * build(): compile a C++ harness against the tree in VERIF_REPO (default /repo)
   with the hook guard on; cached under a hash of the preprocessed source, so an
   edited tree always recompiles.
 * validate_traces(): shard NDJSON traces recorded from the real code over TLC
   processes running a Trace_* specification.
 * Findings / Evidence: known-findings matching and the evidence file.
"""
import glob
import hashlib
import json
import os
import re
import shutil
import subprocess
import sys
import time
from concurrent.futures import ThreadPoolExecutor

ROOT = os.path.dirname(os.path.dirname(os.path.abspath(__file__)))
REPO = os.environ.get("VERIF_REPO", "/repo")
SPECS = os.path.join(ROOT, "specs")
HARNESS = os.path.join(ROOT, "harness")
BUILD = os.path.join(ROOT, "build")
GUARD = "GUDHI_VERIF_TRACE"
TLA_CP = "/opt/veriftools/tla/tla2tools.jar:/opt/veriftools/tla/CommunityModules-deps.jar"
NCPU = os.cpu_count() or 4


class Infra(Exception):
    """Infrastructure failure (compiler, TLC parse error, timeout): exit 2."""


class DriverCrash(Infra):
    """A harness binary was killed by a signal / abort while driving the library outside a code path that records the
    crash itself.  On the unchanged tree this does not happen; bin/check reports it as a violation (the replay file holds
    the command and its output), not as an infrastructure failure."""



def log(*a):
    print(*a, file=sys.stderr, flush=True)


def seed():
    try:
        return int(os.environ.get("VERIF_SEED", "1"))
    except ValueError:
        return 1


# --------------------------------------------------------------------------- build
def inc_flags(repo=None):
    repo = repo or REPO
    incs = sorted(glob.glob(os.path.join(repo, "src", "*", "include")))
    fl = []
    for i in incs:
        fl += ["-I", i]
    fl += ["-I", "/usr/include/eigen3", "-I", HARNESS]
    return fl


def build(name, src, defines=(), extra=(), libs=(), sanitize=None, opt="-O1", std="-std=c++17", timeout=1500):
    """Compile harness/<src> against REPO's headers.  Returns the binary path."""
    os.makedirs(os.path.join(BUILD, "bin"), exist_ok=True)
    srcp = src if os.path.isabs(src) else os.path.join(HARNESS, src)
    cxx = "g++"
    flags = [std, opt, "-w", "-D" + GUARD] + ["-D" + d for d in defines] + list(extra)
    if sanitize:
        cxx = "clang++-14"
        flags += ["-g", "-fno-omit-frame-pointer", "-fsanitize=" + sanitize, "-fno-sanitize-recover=undefined"]
        if "address" in sanitize:
            flags += ["-fsanitize-recover=address"]   # run with ASAN_OPTIONS=halt_on_error=0: reports are attached to steps
    flags += inc_flags()
    # content hash of the preprocessed translation unit (all included headers)
    t0 = time.time()
    pp = subprocess.run([cxx, "-E", "-P"] + flags + [srcp], capture_output=True, timeout=timeout)
    if pp.returncode != 0:
        raise Infra("preprocess failed for %s:\n%s" % (src, pp.stderr.decode()[-3000:]))
    h = hashlib.sha256(pp.stdout + " ".join([cxx] + flags + list(libs)).encode()).hexdigest()[:16]
    out = os.path.join(BUILD, "bin", "%s-%s" % (name, h))
    if os.path.exists(out):
        return out
    cmd = [cxx] + flags + [srcp, "-o", out + ".tmp"] + list(libs) + ["-lboost_json", "-ltbb", "-lpthread"]
    r = subprocess.run(cmd, capture_output=True, timeout=timeout)
    if r.returncode != 0:
        raise Infra("compile failed for %s:\n%s" % (src, r.stderr.decode()[-6000:]))
    os.replace(out + ".tmp", out)
    log("[build] %s in %.1fs" % (os.path.basename(out), time.time() - t0))
    return out


def build_many(jobs, par=None):
    """jobs: list of dict(kwargs for build).  Compiles in parallel."""
    par = par or min(NCPU, max(1, len(jobs)))
    with ThreadPoolExecutor(par) as ex:
        futs = [ex.submit(build, **j) for j in jobs]
        return [f.result() for f in futs]


# --------------------------------------------------------------------------- TLC
class TlcResult:
    def __init__(self):
        self.generated = 0
        self.distinct = 0
        self.depth = 0
        self.ok = False
        self.violation = None  # text of an invariant/property violation
        self.outfile = None
        self.wall = 0.0
        self.coverage = {}
        self.rc = None


_tlc_counter = [0]


def tlc(module, cfg, workers=1, simulate=None, depth=None, env=None, timeout=1100, coverage=False,
        tag=None, heap="8g", extra_java=(), allow_violation=False, rseed=None):
    """Run TLC in specs/.  simulate = number of behaviours (per worker) or None for BFS."""
    _tlc_counter[0] += 1
    tag = tag or ("%s-%d-%d" % (cfg.replace(".cfg", ""), os.getpid(), _tlc_counter[0]))
    meta = os.path.join(BUILD, "tlc", tag)
    shutil.rmtree(meta, ignore_errors=True)
    os.makedirs(meta, exist_ok=True)
    out = os.path.join(meta, "out.txt")
    cmd = ["java", "-XX:+UseParallelGC", "-Xmx" + heap] + list(extra_java) + ["-cp", TLA_CP, "tlc2.TLC",
           "-workers", str(workers), "-metadir", os.path.join(meta, "states"), "-config", cfg]
    if simulate is not None:
        cmd += ["-simulate", "num=%d" % simulate]
        cmd += ["-seed", str(rseed if rseed is not None else seed())]
    if depth is not None:
        cmd += ["-depth", str(depth)]
    if coverage:
        cmd += ["-coverage", "1"]
    cmd += [module if module.endswith(".tla") else module + ".tla"]
    e = dict(os.environ)
    if env:
        e.update(env)
    t0 = time.time()
    with open(out, "wb") as fo:
        try:
            p = subprocess.run(cmd, cwd=SPECS, stdout=fo, stderr=subprocess.STDOUT, env=e, timeout=timeout)
        except subprocess.TimeoutExpired:
            raise Infra("TLC timeout (%ss) on %s/%s" % (timeout, module, cfg))
    res = TlcResult()
    res.outfile = out
    res.wall = time.time() - t0
    res.rc = p.returncode
    shutil.rmtree(os.path.join(meta, "states"), ignore_errors=True)
    tailtxt = []
    with open(out, "r", errors="replace") as f:
        for line in f:
            if line.startswith("<<\""):
                continue
            tailtxt.append(line)
            m = re.match(r"(\d+) states generated, (\d+) distinct states found", line)
            if m:
                res.generated, res.distinct = int(m.group(1)), int(m.group(2))
            m = re.match(r"The depth of the complete state graph search is (\d+)", line)
            if m:
                res.depth = int(m.group(1))
            m = re.match(r"<(\w+) line \d+, col \d+ to line \d+, col \d+ of module (\w+)>: (\d+):(\d+)", line)
            if m:
                res.coverage[m.group(1)] = res.coverage.get(m.group(1), 0) + int(m.group(4))
    txt = "".join(tailtxt)
    res.text = txt[-20000:]
    if "Parsing or semantic analysis failed" in txt or "Error: " in txt and "is violated" not in txt and \
            "Invariant" not in txt and "violated" not in txt:
        raise Infra("TLC error on %s/%s:\n%s" % (module, cfg, txt[-4000:]))
    if "is violated" in txt or "violated" in txt:
        res.violation = txt[-6000:]
        if not allow_violation:
            pass
    elif p.returncode != 0:
        raise Infra("TLC rc=%d on %s/%s:\n%s" % (p.returncode, module, cfg, txt[-4000:]))
    else:
        res.ok = True
    return res


def emits(outfile, tags=None):
    """Yield (tag, obj) for every line  <<"TAG", "json">>  printed by the model."""
    with open(outfile, "r", errors="replace") as f:
        for line in f:
            if not line.startswith('<<"'):
                continue
            try:
                i = line.index('", "')
                tag = line[3:i]
                if tags and tag not in tags:
                    continue
                j = line.rindex('">>')
                inner = line[i + 3:j + 1]
                yield tag, json.loads(json.loads(inner))
            except (ValueError, json.JSONDecodeError):
                continue


# --------------------------------------------------------------------------- state graph
def canon_id(x):
    """Canonical hashable id of a state id as emitted by a model: a JSON value whose
    top level, when an array, is a set (TLC emits set elements in normalized order, so
    sorting the serialized elements is enough)."""
    if isinstance(x, list):
        return "[" + ",".join(sorted(json.dumps(e, separators=(",", ":"), sort_keys=True) for e in x)) + "]"
    return json.dumps(x, separators=(",", ":"), sort_keys=True)


class StateGraph:
    """States (id -> observation) and labelled edges emitted by a bounded model."""

    def __init__(self):
        self.idx = {}      # canonical id -> index
        self.obs = []      # index -> observation (or None)
        self.out = []      # index -> list of (act, to_index)
        self.nedges = 0
        self.init = None

    def state(self, sid):
        c = canon_id(sid)
        i = self.idx.get(c)
        if i is None:
            i = len(self.obs)
            self.idx[c] = i
            self.obs.append(None)
            self.out.append([])
        return i

    @classmethod
    def from_tlc(cls, outfile, init_id=None):
        g = cls()
        if init_id is not None:
            g.init = g.state(init_id)
        for tag, o in emits(outfile, ("STATE", "EDGE")):
            if tag == "STATE":
                i = g.state(o["id"])
                g.obs[i] = o["obs"]
                if g.init is None:
                    g.init = i
            else:
                u = g.state(o["from"])
                v = g.state(o["to"])
                g.out[u].append((o["act"], v))
                g.nedges += 1
        return g

    def bfs_tree(self, banned=frozenset(), ban_ops=frozenset()):
        """parent[v] = (u, edge_index) along a BFS tree from init avoiding banned (u, k) edges."""
        parent = {self.init: None}
        order = [self.init]
        qi = 0
        while qi < len(order):
            u = order[qi]
            qi += 1
            for k, (a, v) in enumerate(self.out[u]):
                if (u, k) in banned or v in parent or a.get("op") in ban_ops:
                    continue
                parent[v] = (u, k)
                order.append(v)
        return parent, order

    def path_to(self, parent, v):
        p = []
        while parent[v] is not None:
            u, k = parent[v]
            p.append((u, k))
            v = u
        p.reverse()
        return p

    def write_walks(self, groups_path, nwalks, length, rnd, ban_ops=frozenset(), append=True):
        """Random walks from init over the explored graph (each is a behaviour of the bounded model); every
        step is checked by the harness.  Appended to the groups file as groups without edges."""
        n = 0
        with open(groups_path, "a" if append else "w") as f:
            for _ in range(nwalks):
                u = self.init
                path = []
                for _ in range(length):
                    outs = [(a, v) for (a, v) in self.out[u] if a.get("op") not in ban_ops]
                    if not outs:
                        break
                    a, v = outs[rnd.randrange(len(outs))]
                    path.append({"act": a, "to": v})
                    u = v
                if path:
                    f.write(json.dumps({"u": -1, "path": path, "edges": []}, separators=(",", ":")) + "\n")
                    n += 1
        return n

    def write_replay(self, states_path, groups_path, banned=frozenset(), only_states=None, max_edges_per_state=None,
                     rnd=None, ban_ops=frozenset()):
        """states file: one line per state {i, obs}; groups file: one line per source state
        {u, path:[{act,to}], edges:[{k,act,to}]} -- every edge is one behaviour init ~> u -> v."""
        parent, order = self.bfs_tree(banned, ban_ops)
        with open(states_path, "w") as f:
            for i, o in enumerate(self.obs):
                f.write(json.dumps({"i": i, "obs": o}, separators=(",", ":")) + "\n")
        nb = 0
        with open(groups_path, "w") as f:
            for u in order:
                if only_states is not None and u not in only_states:
                    continue
                path = [{"act": self.out[a][k][0], "to": self.out[a][k][1]} for a, k in self.path_to(parent, u)]
                ks = [k for k in range(len(self.out[u])) if (u, k) not in banned and self.out[u][k][0].get("op") not in ban_ops]
                if max_edges_per_state and len(ks) > max_edges_per_state and rnd:
                    ks = sorted(rnd.sample(ks, max_edges_per_state))
                edges = [{"k": k, "act": self.out[u][k][0], "to": self.out[u][k][1]} for k in ks]
                if not edges:
                    continue
                nb += len(edges)
                f.write(json.dumps({"u": u, "path": path, "edges": edges}, separators=(",", ":")) + "\n")
        return nb, len(order)


# --------------------------------------------------------------------------- harness runs
def run(cmd, timeout=1100, env=None, cwd=None, ok_codes=(0,)):
    e = dict(os.environ)
    if env:
        e.update(env)
    try:
        p = subprocess.run(cmd, capture_output=True, timeout=timeout, env=e, cwd=cwd)
    except subprocess.TimeoutExpired:
        raise Infra("timeout (%ss): %s" % (timeout, " ".join(cmd)[:300]))
    if p.returncode not in ok_codes:
        msg = "rc=%d: %s\n%s\n%s" % (p.returncode, " ".join(cmd)[:300], p.stdout.decode(errors="replace")[-3000:],
                                     p.stderr.decode(errors="replace")[-3000:])
        if (p.returncode < 0 or p.returncode in (134, 136, 139)) and os.path.join("build", "bin") in str(cmd[0]):
            raise DriverCrash(msg)   # a harness binary killed by a signal: the library took its driver down
        raise Infra(msg)
    return p


def run_recorder(cmd, timeout=1100, env=None, cwd=None):
    """Run a program that drives the library and records what it does.  A recorder killed by the library (assertion,
    signal, uncaught exception, sanitizer) is not an infrastructure failure: returns (process, None) on a clean exit and
    (process, deviation-dict) otherwise; what was recorded up to that point is still validated."""
    e = dict(os.environ)
    if env:
        e.update(env)
    try:
        p = subprocess.run(cmd, capture_output=True, timeout=timeout, env=e, cwd=cwd)
    except subprocess.TimeoutExpired:
        raise Infra("timeout (%ss): %s" % (timeout, " ".join(cmd)[:300]))
    if p.returncode == 0:
        return p, None
    if p.returncode == 2:   # usage / setup errors of the harness itself
        raise Infra("rc=2: %s\n%s" % (" ".join(cmd)[:300], p.stderr.decode(errors="replace")[-3000:]))
    return p, {"kind": "recorder_crash", "rc": p.returncode, "cmd": " ".join(os.path.basename(x) for x in cmd)[:200],
               "output": (p.stdout.decode(errors="replace") + p.stderr.decode(errors="replace"))[-1500:]}


def run_parallel(cmds, par=None, timeout=1100, env=None, ok_codes=(0,)):
    par = par or NCPU
    with ThreadPoolExecutor(par) as ex:
        futs = [ex.submit(run, c, timeout, env, None, ok_codes) for c in cmds]
        return [f.result() for f in futs]


def by_action(g):
    """transitions of a state graph per action (vacuity check: an action with no transition was never exercised);
    for wrapped actions ('mutate') the inner operation is counted"""
    c = {}
    for outs in g.out:
        for a, _ in outs:
            k = a.get("op", "?")
            if isinstance(a.get("m"), dict):
                k += ":" + a["m"].get("op", "?")
            c[k] = c.get(k, 0) + 1
    return dict(sorted(c.items()))


def read_ndjson(path, tolerant=False):
    """tolerant: a line that is not JSON (a writer that died in the middle of a record, or records of a dying child
    interleaved with the parent's) becomes a crash record instead of an exception of the driver."""
    out = []
    with open(path) as f:
        for n, line in enumerate(f):
            line = line.strip()
            if line:
                try:
                    out.append(json.loads(line))
                except json.JSONDecodeError:
                    if not tolerant:
                        raise
                    out.append({"kind": "crash", "signal": 0, "where": "malformed record %d of %s (the writer died): %s"
                                % (n + 1, os.path.basename(path), line[:200])})
    return out


# --------------------------------------------------------------------------- trace validation
def validate_trace(module, cfg, trace_path, tag=None, timeout=1100, extra_env=None, extra_java=()):
    """Run a Trace_* spec on one NDJSON file.  The spec must define the POSTCONDITION that
    prints  <<"TRACE", "{accepted: bool, matched: n, len: n}">>.  Returns dict."""
    # A recorder that died (library crash, uncaught exception) leaves a truncated last line: the complete events are
    # still validated, the trace counts as rejected at the event that was being written.
    truncated = False
    with open(trace_path) as f:
        lines = f.read().split("\n")
    while lines and lines[-1].strip() == "":
        lines.pop()
    if lines:
        try:
            json.loads(lines[-1])
        except ValueError:
            truncated = True
            lines.pop()
            with open(trace_path, "w") as f:
                f.write("".join(x + "\n" for x in lines))
    if truncated and not lines:
        return {"accepted": False, "matched": 0, "len": 0, "truncated": True, "wall": 0.0, "file": trace_path, "generated": 0}
    env = {"TRACE": trace_path}
    if extra_env:
        env.update(extra_env)
    r = tlc(module, cfg, workers=1, env=env, timeout=timeout, tag=tag, allow_violation=True, heap="4g",
            extra_java=extra_java)
    info = None
    for t, o in emits(r.outfile, ("TRACE",)):
        info = o
    if info is None:
        raise Infra("trace spec %s printed no verdict for %s:\n%s" % (module, trace_path, r.text[-3000:]))
    info["wall"] = r.wall
    info["file"] = trace_path
    info["generated"] = r.generated
    if truncated:
        info["truncated"] = True
        info["accepted"] = False   # the recorder died while writing the event after the last complete one
    return info


def validate_traces(module, cfg, paths, par=None, timeout=1100, extra_env=None, extra_java=()):
    par = par or min(NCPU, 8)
    with ThreadPoolExecutor(par) as ex:
        futs = [ex.submit(validate_trace, module, cfg, p, "%s-%d-%d" % (module, os.getpid(), i), timeout, extra_env,
                          extra_java)
                for i, p in enumerate(paths)]
        return [f.result() for f in futs]


# --------------------------------------------------------------------------- findings
class Findings:
    def __init__(self):
        p = os.path.join(ROOT, "known_findings.json")
        self.entries = json.load(open(p))["findings"] if os.path.exists(p) else []
        for q in sorted(glob.glob(os.path.join(ROOT, "findings", "*.json"))):  # per-property staging files
            self.entries += json.load(open(q))["findings"]
        self.seen = {}

    def known(self, prop):
        return [e for e in self.entries if e["property"] == prop and e.get("status") == "known"]

    def match(self, prop, dev, matchers):
        """matchers: dict finding-id -> predicate(dev).  Returns finding id or None."""
        for e in self.known(prop):
            m = matchers.get(e["id"])
            if m and m(dev):
                self.seen[e["id"]] = self.seen.get(e["id"], 0) + 1
                return e["id"]
        return None

    def report(self, prop):
        for e in self.known(prop):
            if e["id"] in self.seen:
                print("KNOWN-FINDING: property=%s %s [%s] (%d occurrences this run)" %
                      (prop, e["signature"], e["id"], self.seen[e["id"]]), flush=True)


# --------------------------------------------------------------------------- evidence
class Evidence:
    def __init__(self, prop, tier, level="model_checking"):
        for old in glob.glob(os.path.join(ROOT, "replays", "%s_*.json" % prop)):  # stale replay files of earlier runs
            try:
                os.remove(old)
            except OSError:
                pass
        self.prop = prop
        self.tier = tier
        self.level = level
        self.t0 = time.time()
        self.cov = {"states": 0, "transitions": 0, "traces_validated_against_impl": 0, "samples": [],
                    "evaluations": 0, "distinct_nontrivial": 0, "rule": "", "exhaustive": False}
        self.assumptions = []
        self.violations = 0
        self.parts = {}

    def add_tlc(self, name, r, extra=None):
        self.cov["states"] += r.distinct
        self.cov["transitions"] += r.generated
        d = {"distinct_states": r.distinct, "states_generated": r.generated, "depth": r.depth,
             "wall_s": round(r.wall, 1)}
        if r.coverage:
            d["action_coverage"] = r.coverage
        if extra:
            d.update(extra)
        self.parts[name] = d

    def sample(self, s, limit=6):
        if len(self.cov["samples"]) < limit:
            self.cov["samples"].append(s)

    def write(self):
        os.makedirs(os.path.join(ROOT, "evidence"), exist_ok=True)
        cov = dict(self.cov)
        cov["parts"] = self.parts
        if not cov["samples"]:
            cov["samples"] = ["(none)"]
        doc = {"property_id": self.prop, "tier": self.tier, "seed": seed(), "level": self.level,
               "coverage": cov, "assumptions": self.assumptions, "wall_s": round(time.time() - self.t0, 1),
               "violations": self.violations, "repo": REPO}
        p = os.path.join(ROOT, "evidence", "%s.json" % self.prop)
        with open(p + ".tmp", "w") as f:
            json.dump(doc, f, indent=1)
        os.replace(p + ".tmp", p)
        return p


def save_replay(prop, name, obj):
    d = os.path.join(ROOT, "replays")
    os.makedirs(d, exist_ok=True)
    p = os.path.join(d, "%s_%s.json" % (prop, name))
    with open(p, "w") as f:
        json.dump(obj, f, indent=1)
    return p


def violation(prop, path):
    print("VIOLATION property=%s replay=%s" % (prop, path), flush=True)


# --------------------------------------------------------------------------- replay of a state graph
last_notes = []   # records of kind "note" of the last replay() calls (harness observations that are not deviations)


def replay(graph, binaries, workdir, env=None, shards=4, banned=frozenset(), timeout=1100, max_edges_per_state=None,
           rnd=None, ban_ops=frozenset(), walks=0, walk_len=0):
    """Run every behaviour of the path cover of `graph` through each harness binary.
    Returns (summaries, deviations, crashes, nbehaviours)."""
    os.makedirs(workdir, exist_ok=True)
    sp = os.path.join(workdir, "states.ndjson")
    gp = os.path.join(workdir, "groups.ndjson")
    nb, nreach = graph.write_replay(sp, gp, banned=banned, max_edges_per_state=max_edges_per_state, rnd=rnd,
                                    ban_ops=ban_ops)
    if walks:
        import random as _r
        nb += graph.write_walks(gp, walks, walk_len, rnd or _r.Random(seed()), ban_ops=ban_ops)
    cmds, outs = [], []
    for bi, b in enumerate(binaries):
        for i in range(shards):
            o = os.path.join(workdir, "out_%d_%d.ndjson" % (bi, i))
            outs.append(o)
            cmds.append([b, sp, gp, o, str(i), str(shards)])
    run_parallel(cmds, timeout=timeout, env=env, ok_codes=(0, 3))
    summaries, devs, crashes = {}, [], []
    for o in outs:
        for rec in read_ndjson(o, tolerant=True):
            k = rec.get("kind")
            if k == "summary":
                s = summaries.setdefault(rec["cfg"], {"behaviours": 0, "steps": 0, "skipped": 0, "deviations": 0})
                for f in ("behaviours", "steps", "skipped", "deviations"):
                    s[f] += rec[f]
            elif k == "deviation":
                devs.append(rec)
            elif k == "crash":
                crashes.append(rec)
            elif k == "note":
                last_notes.append(rec)
    return summaries, devs, crashes, nb
