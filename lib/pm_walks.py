"""Random legal histories of PersistenceMatrix.tla beyond the bounded model (general cells over Z_p, up to nmax
cells): insertions of random cycles, remove_last, admissible transpositions, removals of maximal cells.  The
generator only proposes; legality is re-checked by TLC when the recorded trace is validated."""
import random


def boundary_of_chain(F, c, p):
    out = {}
    for x, a in c.items():
        for y, b in F[x]["bd"].items():
            out[y] = (out.get(y, 0) + a * b) % p
    return {k: v for k, v in out.items() if v}


def kernel_sample(F, d, p, rnd):
    """random non-zero cycle among the cells of dimension d (positions), or None"""
    cells = [i for i, c in enumerate(F) if c["dim"] == d]
    if not cells:
        return None
    rows = sorted({y for i in cells for y in F[i]["bd"]})
    # Gaussian elimination on the boundary matrix (rows x cells) over Z_p, keeping the combination of each column
    basis = []   # list of (vector over rows as dict, combination over cells as dict)
    kernel = []
    piv = {}
    for i in cells:
        v = dict(F[i]["bd"])
        comb = {i: 1}
        while v:
            r = max(v)
            if r not in piv:
                break
            bv, bc = piv[r]
            k = (-v[r] * pow(bv[r], -1, p)) % p
            for y, b in bv.items():
                v[y] = (v.get(y, 0) + k * b) % p
            v = {y: a for y, a in v.items() if a}
            for y, b in bc.items():
                comb[y] = (comb.get(y, 0) + k * b) % p
            comb = {y: a for y, a in comb.items() if a}
        if v:
            piv[max(v)] = (v, comb)
        else:
            kernel.append(comb)
    if not kernel:
        return None
    out = {}
    for kv in kernel:
        k = rnd.randrange(p) if len(kernel) > 1 else rnd.randrange(1, p)
        for y, a in kv.items():
            out[y] = (out.get(y, 0) + k * a) % p
    out = {y: a for y, a in out.items() if a}
    return out or dict(kernel[rnd.randrange(len(kernel))])


def _swap(F, path, i):
    a, b = F[i], F[i + 1]
    F[i], F[i + 1] = b, a
    tau = lambda x: i + 1 if x == i else (i if x == i + 1 else x)
    for c in F:
        c["bd"] = {tau(x): v for x, v in c["bd"].items()}
    path.append({"act": {"op": "vine_swap", "i": i, "ret_set": [False, True], "ret_ok": True}, "to": -1})


def _insert(F, path, d, bd):
    F.append({"dim": d, "bd": bd})
    path.append({"act": {"op": "insert", "d": d, "bd_set": [{"x": x, "c": c} for x, c in sorted(bd.items())]}, "to": -1})


def gen_walk_graph(rnd, p, steps, nmax):
    """A graph (vertices, then edges, some of them closing cycles); then repeatedly: one cell travels forward through
    admissible transpositions up to the position before the last cell, the last cell is removed and a new edge or
    vertex is inserted in its place.  A cell reduced with the help of other columns is removed after its paired birth
    has moved behind those columns: what the removal has to clean up is no longer where a fresh reduction leaves it."""
    F, path = [], []
    nv = rnd.randrange(3, 6)
    for _ in range(nv):
        _insert(F, path, 0, {})

    def edge():
        vs = [i for i, c in enumerate(F) if c["dim"] == 0]
        u, v = sorted(rnd.sample(vs, 2))
        return {u: p - 1 if p > 2 else 1, v: 1}
    for _ in range(rnd.randrange(2, 6)):
        if len(F) < nmax:
            _insert(F, path, 1, edge())
    while len(path) < steps:
        n = len(F)
        if n < 3:
            break
        i = rnd.randrange(0, n - 1)
        back = rnd.random() < 0.25
        rng_ = range(i, n - 2) if not back else range(i - 1, max(-1, i - 4), -1)
        for j in rng_:
            if j < 0 or j >= len(F) - 1 or j in F[j + 1]["bd"]:
                break
            _swap(F, path, j)
        F.pop()
        path.append({"act": {"op": "remove_last"}, "to": -1})
        if sum(1 for c in F if c["dim"] == 0) >= 2 and rnd.random() < 0.8:
            _insert(F, path, 1, edge())
        else:
            _insert(F, path, 0, {})
    return path


def gen_walk(rnd, p, steps, nmax, vine):
    if vine and rnd.random() < 0.34:
        return gen_walk_graph(rnd, p, steps, nmax)
    F = []
    path = []
    # every second walk: a transposition near the end is followed by remove_last down to (or just past) the swapped
    # positions and by new insertions there - state left behind by a swap in slots that removals free again
    shrink_regrow = vine and rnd.random() < 0.5
    pending_removes = 0
    regrow = 0
    forced = []   # swap chains: a transposition is followed by a neighbouring one (the same cell travels on, or the
                  # cell that took its place travels back) and then by a single remove_last
    for _ in range(steps):
        ops = ["insert"] * 5 + ["remove_last"]
        if vine:
            ops += ["vine_swap"] * 4 + ["remove_maximal"]
        op = rnd.choice(ops)
        n = len(F)
        forced_i = None
        if forced and pending_removes == 0 and regrow == 0:
            op = forced.pop(0)
            if isinstance(op, tuple):
                forced_i = op[1]
                op = "vine_swap"
        if pending_removes > 0 and n > 0:
            op = "remove_last"
            pending_removes -= 1
            if pending_removes == 0:
                regrow = 2
        elif regrow > 0 and n < nmax:
            # regrow: a new vertex in the freed slot, then an edge whose pivot is that vertex
            verts = [i for i, c in enumerate(F) if c["dim"] == 0]
            if regrow == 2 or not verts or F[-1]["dim"] != 0:
                bd, d = {}, 0
            else:
                other = [v for v in verts if v != n - 1]
                if not other:
                    regrow = 0
                    continue
                bd, d = {rnd.choice(other): p - 1 if p > 2 else 1, n - 1: 1}, 1
            regrow -= 1
            F.append({"dim": d, "bd": bd})
            path.append({"act": {"op": "insert", "d": d, "bd_set": [{"x": x, "c": c} for x, c in sorted(bd.items())]}, "to": -1})
            continue
        elif shrink_regrow and n >= 4 and rnd.random() < 0.25:
            # a swap among the last cells, then the removals
            cand = [i for i in range(max(0, n - 4), n - 1) if i not in F[i + 1]["bd"]]
            if cand:
                i = rnd.choice(cand)
                a, b = F[i], F[i + 1]
                F[i], F[i + 1] = b, a
                tau = lambda x, i=i: i + 1 if x == i else (i if x == i + 1 else x)
                for c in F:
                    c["bd"] = {tau(x): v for x, v in c["bd"].items()}
                path.append({"act": {"op": "vine_swap", "i": i, "ret_set": [False, True], "ret_ok": True}, "to": -1})
                pending_removes = n - (i + 1) + rnd.randrange(2)
                continue
        if op == "insert" and n < nmax:
            d = rnd.choice([0, 0, 1, 1, 1, 2, 2, 3])
            if d == 0:
                bd = {}
            else:
                if rnd.random() < 0.2 or d == 1 and not any(c["dim"] == 0 for c in F):
                    bd = None
                else:
                    bd = kernel_sample(F, d - 1, p, rnd)
                if bd is None:
                    continue
            F.append({"dim": d, "bd": bd})
            path.append({"act": {"op": "insert", "d": d, "bd_set": [{"x": x, "c": c} for x, c in sorted(bd.items())]}, "to": -1})
        elif op == "remove_last" and n > 0:
            F.pop()
            path.append({"act": {"op": "remove_last"}, "to": -1})
        elif op == "vine_swap" and n >= 2:
            i = rnd.randrange(n - 1) if forced_i is None else forced_i
            if i < 0 or i >= n - 1 or i in F[i + 1]["bd"]:
                continue
            if forced_i is None and not forced and not shrink_regrow and rnd.random() < 0.5:
                r = rnd.random()
                if r < 0.6:      # the cell at i travels on to the position before the last cell, which is then removed
                    forced = [("vine_swap", j) for j in range(i + 1, n - 2)] + ["remove_last"]
                elif r < 0.8:    # ... or travels back to the front
                    forced = [("vine_swap", j) for j in range(i - 1, max(-1, i - 4), -1)] + ["remove_last"]
                else:
                    forced = [("vine_swap", i + rnd.choice([-1, 1]))] + ["remove_last"]
            a, b = F[i], F[i + 1]
            F[i], F[i + 1] = b, a
            tau = lambda x: i + 1 if x == i else (i if x == i + 1 else x)
            for c in F:
                c["bd"] = {tau(x): v for x, v in c["bd"].items()}
            path.append({"act": {"op": "vine_swap", "i": i, "ret_set": [False, True], "ret_ok": True}, "to": -1})
        elif op == "remove_maximal" and n > 0:
            i = rnd.randrange(n)
            if any(i in c["bd"] for c in F):
                continue
            F.pop(i)
            for c in F:
                c["bd"] = {(x - 1 if x > i else x): v for x, v in c["bd"].items()}
            path.append({"act": {"op": "remove_maximal", "i": i}, "to": -1})
    return path
