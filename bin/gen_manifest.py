#!/usr/bin/env python3
"""Regenerates MANIFEST.json from the table below (kept in one place so it is always valid)."""
import json, os
ROOT = os.path.dirname(os.path.dirname(os.path.abspath(__file__)))
CHECKS = json.load(open(os.path.join(ROOT, "checks", "registry.json")))
props = [json.loads(l) for l in open(os.path.join(ROOT, "properties.jsonl"))]
man = {
 "version": 1,
 "setup_cmd": "true",
 "hooks": {"guard": "GUDHI_VERIF_TRACE",
           "enable": "harnesses are compiled from /repo's working tree by bin/check with -DGUDHI_VERIF_TRACE (lib/vf.py build())",
           "baseline_off_cmd": "/verif/bin/baseline_off",
           "source_commits": CHECKS.get("_hook_commits", []), "add_only": True},
 "engines": [{"name": "tlc", "path": "/opt/veriftools/tla/tla2tools.jar", "serves_properties": sorted(k for k in CHECKS if not k.startswith("_")),
              "kind_free_text": "explicit-state model checker for the TLA+ specifications in specs/ (BFS, simulation, trace validation)"}],
 "checks": [], "not_applicable": [],
 "notes": "All checks: bin/check <id> --tier quick|thorough. TLA+ specs in specs/, C++ conformance harnesses in harness/, see DESIGN.md."}
for p in props:
    c = CHECKS.get(p["id"])
    if not c or c.get("not_applicable"):
        man["not_applicable"].append({"property_id": p["id"], "reason": (c or {}).get("not_applicable", "check not built yet in this session; see DESIGN.md section 4 for the planned specification")})
        continue
    man["checks"].append({
      "property_id": p["id"], "quick_cmd": "bin/check %s --tier quick" % p["id"], "thorough_cmd": "bin/check %s --tier thorough" % p["id"],
      "evidence_file": "evidence/%s.json" % p["id"], "replay_cmd_template": "cat {path}", "engine": "tlc",
      "level_claimed": {"category": c.get("category", "model_checking"), "text": c["text"], "design_ref": c.get("design_ref", "DESIGN.md section 4")},
      "level_note": c["note"], "technique": c["technique"]})
json.dump(man, open(os.path.join(ROOT, "MANIFEST.json"), "w"), indent=1)
print("checks:", [c["property_id"] for c in man["checks"]])
