#!/usr/bin/env python3
"""Appends / refreshes the 'as built' part of DESIGN.md (sections 11-14) from agent_reports/*.md, known_findings.json
and seeded/*/meta.json.  Sections 1-10 (the design written before the code) are left untouched."""
import glob, json, os, re
ROOT = os.path.dirname(os.path.dirname(os.path.abspath(__file__)))
p = os.path.join(ROOT, "DESIGN.md")
s = open(p).read()
marker = "\n------------------------------------------------------------------------------\n\n## 11. As built"
if marker in s:
    s = s[:s.index(marker)]
out = [s.rstrip("\n"), marker + " (written after the code; supersedes the targets of section 4 where they differ)\n"]
out.append(open(os.path.join(ROOT, "agent_reports", "_overview.md")).read())
out.append("\n### 11.2 Per property\n")
for f in sorted(glob.glob(os.path.join(ROOT, "agent_reports", "C*.md"))):
    out.append(open(f).read().strip() + "\n")
k = json.load(open(os.path.join(ROOT, "known_findings.json")))["findings"]
out.append("\n## 12. Genuine defects found\n")
out.append("Every entry was first reported as a deviation by a check on the unchanged tree, then confirmed against the real code (witness below). "
           "`fixed` entries were repaired by one unguarded `fix:` commit each in /repo (the pinned suite still passes: `bin/baseline_off`); they "
           "suppress nothing. `known` entries are printed as `KNOWN-FINDING:` only when observed and matched on the narrow signature given.\n")
out.append("| id | status | commit | what fails |\n|---|---|---|---|")
for e in k:
    sig = e["signature"].replace("|", "/").replace("\n", " ")
    out.append("| %s | %s | %s | %s |" % (e["id"], e["status"], e.get("commit", ""), sig[:400]))
out.append("\nWhy some defects are recorded rather than repaired: " + open(os.path.join(ROOT, "agent_reports", "_known_why.md")).read())
out.append("\n## 13. Seeded changes: which check catches what\n")
rows = []
for m in sorted(glob.glob(os.path.join(ROOT, "seeded", "*", "meta.json"))):
    d = json.load(open(m))
    rows.append("| %s | %s | %s | %s | %s |" % (os.path.basename(os.path.dirname(m)), d.get("property"), d.get("change", "")[:200].replace("|", "/"),
                                               d.get("needs", "")[:200].replace("|", "/"), d.get("caught_by", "")[:200].replace("|", "/")))
if rows:
    out.append("| seeded change | property | change | needs to manifest | caught by |\n|---|---|---|---|---|")
    out += rows
else:
    out.append("(none confirmed yet)")
extra = os.path.join(ROOT, "agent_reports", "_seeded_notes.md")
if os.path.exists(extra):
    out.append("\n" + open(extra).read())
out.append("\n## 14. Not applicable / limits\n")
out.append(open(os.path.join(ROOT, "agent_reports", "_limits.md")).read())
open(p, "w").write("\n".join(out) + "\n")
print("DESIGN.md regenerated:", len("\n".join(out)), "bytes")
